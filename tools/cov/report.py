"""usage: report.py <repo root> <cov dir per check>...   -> uncovered executable lines of fickling/*.py, per file and function"""
import ast
import glob
import os
import sys


def executable_lines(path):
    src = open(path).read()
    code = compile(src, path, "exec")
    lines, stack = set(), [code]
    while stack:
        c = stack.pop()
        lines |= {ln for _s, _e, ln in c.co_lines() if ln}
        stack += [k for k in c.co_consts if hasattr(k, "co_lines")]
    tree = ast.parse(src)
    # drop docstring-only and def/class header lines (executed at import)
    funcs = []
    for n in ast.walk(tree):
        if isinstance(n, (ast.FunctionDef, ast.AsyncFunctionDef)):
            funcs.append((n.lineno, n.end_lineno, n.name))
    return lines, funcs


def main():
    repo = sys.argv[1]
    covered = {}
    for d in sys.argv[2:]:
        for f in glob.glob(os.path.join(d, "cov.*")):
            for ln in open(f):
                fn, _, no = ln.strip().rpartition(":")
                covered.setdefault(fn.lstrip("/"), set()).add(int(no))
    tot = hit = 0
    for path in sorted(glob.glob(os.path.join(repo, "fickling", "*.py"))):
        rel = os.path.relpath(path, os.path.join(repo, "fickling"))
        ex, funcs = executable_lines(path)
        cov = covered.get(rel, set())
        miss = sorted(ex - cov)
        tot += len(ex)
        hit += len(ex & cov)
        print(f"== {rel}: {len(ex & cov)}/{len(ex)} lines")
        byf = {}
        for ln in miss:
            name = next((nm for a, b, nm in sorted(funcs, key=lambda t: t[1] - t[0]) if a <= ln <= b), "<module>")
            byf.setdefault(name, []).append(ln)
        for nm, lns in sorted(byf.items(), key=lambda kv: kv[1][0]):
            print(f"   {nm}: {lns}")
    print(f"TOTAL {hit}/{tot}")


if __name__ == "__main__":
    main()
