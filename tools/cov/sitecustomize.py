"""Line coverage of the code under verification while the checks run (measurement aid, not part of any check).
Enabled only when VERIF_COV_ROOT (path prefix of the files of interest) and VERIF_COV_OUT (directory) are set.
Uses sys.monitoring (3.12): every line reports once per process and is then disabled; new lines are written through
with os.write so that forked pool workers and os._exit do not lose them."""
import os
import sys

_root, _out = os.environ.get("VERIF_COV_ROOT"), os.environ.get("VERIF_COV_OUT")
if _root and _out and hasattr(sys, "monitoring"):
    _mon, _TOOL, _fd = sys.monitoring, 3, {}
    try:
        _mon.use_tool_id(_TOOL, "verifcov")

        def _line(code, lineno):
            fn = code.co_filename
            if fn.startswith(_root):
                pid = os.getpid()
                f = _fd.get(pid)
                if f is None:
                    f = _fd[pid] = os.open(os.path.join(_out, f"cov.{pid}"), os.O_WRONLY | os.O_CREAT | os.O_APPEND)
                os.write(f, f"{fn[len(_root):]}:{lineno}\n".encode())
            return _mon.DISABLE

        _mon.register_callback(_TOOL, _mon.events.LINE, _line)
        _mon.set_events(_TOOL, _mon.events.LINE)
    except Exception:  # noqa: BLE001 - measurement only
        pass
