#!/venv/bin/python
"""tools/reg.py <id> <engine> <design_ref> <<< JSON{text, note, technique, category?}: (re)register a check in MANIFEST.json"""
import json, sys
pid, engine, ref = sys.argv[1:4]
d = json.load(sys.stdin)
m = json.load(open('/verif/MANIFEST.json'))
c = {"property_id": pid, "quick_cmd": f"./check {pid} --tier quick", "thorough_cmd": f"./check {pid} --tier thorough",
     "evidence_file": f"/verif/evidence/{pid}.json", "replay_cmd_template": f"./check {pid} --replay {{path}}",
     "engine": engine, "level_claimed": {"category": d.get("category", "model_checking"), "text": d["text"], "design_ref": ref},
     "level_note": d["note"], "technique": d["technique"]}
m["checks"] = sorted([x for x in m["checks"] if x["property_id"] != pid] + [c], key=lambda x: x["property_id"])
m["not_applicable"] = [x for x in m["not_applicable"] if x["property_id"] != pid]
eng = {e["name"]: e for e in m.get("engines", [])}
e = eng.setdefault(engine, {"name": engine, "path": d.get("engine_path", "/verif/spec"), "serves_properties": [], "kind_free_text": d.get("engine_kind", "")})
e["serves_properties"] = sorted(set(e["serves_properties"]) | {pid})
if d.get("engine_path"): e["path"] = d["engine_path"]
if d.get("engine_kind"): e["kind_free_text"] = d["engine_kind"]
m["engines"] = list(eng.values())
json.dump(m, open('/verif/MANIFEST.json', 'w'), indent=1)
print("registered", pid)
