----------------------------- MODULE HooksTrace -----------------------------
(* Validation of recorded hook-lifecycle histories (harness/props/c12.py).   *)
(* step: [op, blocks |-> <<4 booleans>>, orig |-> <<4 booleans>>]             *)
(* G is the set of ghost states (readings of the text) that admit everything *)
(* observed so far; the history is rejected when it becomes empty.           *)
EXTENDS HooksProp, TLC, Json, IOUtils, TLCExt

T == JsonDeserialize(IOEnv.VERIF_TRACE)
VARIABLES tid, l, G, verdict
vars == <<tid, l, G, verdict>>
Init == tid \in 1..Len(T) /\ l = 0 /\ G = {Ghost0} /\ verdict = "running"

AsFn(q) == [i \in BI |-> q[i]]

StepT ==
  LET R == T[tid]  i == l + 1  st == R.steps[i]
      G2 == UNION {Succ(x, st.op, AsFn(st.blocks), AsFn(st.orig), AsFn(st.mlblocks), AsFn(st.addblocks)) : x \in G}
  IN
  /\ verdict = "running" /\ l < Len(R.steps) /\ l' = i /\ UNCHANGED tid
  /\ G' = G2
  /\ verdict' = IF G2 = {} THEN "rejected: " \o Clause(st.op) \o " at step " \o ToString(i) \o " (" \o st.op \o ")"
                ELSE IF i = Len(R.steps) THEN "accepted" ELSE "running"
Empty == verdict = "running" /\ Len(T[tid].steps) = 0 /\ verdict' = "accepted" /\ UNCHANGED <<tid, l, G>>
Next == StepT \/ Empty
Spec == Init /\ [][Next]_vars
Report == verdict # "running" => PrintT(<<"VERDICT", T[tid].id, ToJson([v |-> verdict, n |-> l])>>)
=============================================================================
