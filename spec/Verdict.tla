------------------------------ MODULE Verdict ------------------------------
(* Severity ranking, labelled vocabulary of globals and the detection FLOOR *)
(* of property C04, as a function of the reference machine's event log.     *)
EXTENDS Naturals, Sequences, FiniteSets

Sev == 0..5
SevName == <<"LIKELY_SAFE", "POSSIBLY_UNSAFE", "SUSPICIOUS", "LIKELY_UNSAFE",
             "LIKELY_OVERTLY_MALICIOUS", "OVERTLY_MALICIOUS">>       \* SevName[r + 1]
LIKELY_SAFE == 0   POSSIBLY_UNSAFE == 1   SUSPICIOUS == 2
LIKELY_UNSAFE == 3   LIKELY_OVERTLY_MALICIOUS == 4   OVERTLY_MALICIOUS == 5

\* ---- labelled vocabulary (module -> category).  The harness only instantiates symbolic globals
\* with modules listed here; a module that is not listed has category "unknown" and contributes
\* nothing to the floor (the check then demands nothing for it).
BuiltinMods   == {"builtins"}          \* event logs carry the normalised spelling (PickleVM!NormMod)
DangerousMods == {"os", "posix", "nt", "subprocess", "sys", "socket", "shutil", "urllib",
                  "torch.hub", "dill", "code",
                  \* submodules of the documented ones
                  "os.path", "urllib.request", "urllib.parse", "dill._dill", "torch.hub.x", "code.x"}
BenignStdMods == {"collections", "datetime", "fractions", "decimal", "copyreg", "_codecs", "array",
                  "uuid", "pathlib", "functools", "string", "types", "enum", "re", "operator", "time", "itertools",
                  "marshal", "_io", "io", "importlib", "gzip", "glob", "shlex"}
NonStdMods    == {"verif_sink", "verif_nat", "numpy", "M1", "M2", "sklearn.tree", "not_a_real_module",
                  "copy_reg", "pkg.sub", "torch", "torch.storage", "torch.serialization", "torch.jit", "operator.impl",
                  "numpy.testing._private.utils", "numpy.testing._private.utils.x", "numpy.core.multiarray",
                  \* python-2 names (not modules of the running standard library; the unpickler renames some of them)
                  "commands", "UserDict", "cPickle", "urllib2", "Queue"}
ModCat(m) == IF m \in BuiltinMods THEN "builtins"
             ELSE IF m \in DangerousMods THEN "dangerous"
             ELSE IF m \in BenignStdMods THEN "benign_std"
             ELSE IF m \in NonStdMods THEN "nonstd"
             ELSE "unknown"

Evalish == {"eval", "exec", "compile", "open"}
\* the standard library re-exports one of them: io.open (and _io.open) IS builtins.open ("io.open: an alias for the
\* builtin open() function"), so calling it is calling `open`
IsEvalish(m, n) == \/ ModCat(m) = "builtins" /\ n \in Evalish
                   \/ m \in {"io", "_io"} /\ n = "open"

\* qualified names of the vocabulary (protocol 4 names an object by a dotted path followed from the module by attribute
\* access): such a callee is COMPUTED from the imported object - `glob` + `os.system` is os.system reached through glob
Dotted == {"os.system", "os.getpid", "OrderedDict.fromkeys", "date.today"}

\* floor contributed by one event of the reference machine (callee is a canonical term)
FloorOf(e) ==
  IF e.e = "import" THEN
       (IF ModCat(e.m) = "dangerous" THEN LIKELY_OVERTLY_MALICIOUS
        ELSE IF ModCat(e.m) = "nonstd" THEN LIKELY_UNSAFE ELSE LIKELY_SAFE)
  ELSE IF e.e = "call" THEN
       (IF e.f.k = "g"
        THEN (IF IsEvalish(e.f.m, e.f.n) THEN OVERTLY_MALICIOUS
              ELSE IF ModCat(e.f.m) = "builtins" THEN LIKELY_UNSAFE
              ELSE IF ModCat(e.f.m) = "nonstd" THEN LIKELY_UNSAFE
              ELSE IF e.f.n \in Dotted THEN LIKELY_UNSAFE                  \* the callee is itself computed
              ELSE LIKELY_SAFE)
        ELSE IF e.f.k \in {"obj", "pers"} THEN LIKELY_UNSAFE       \* the callee is itself computed
        ELSE LIKELY_SAFE)
  ELSE LIKELY_SAFE

MaxOf(S) == IF S = {} THEN 0 ELSE CHOOSE x \in S : \A y \in S : y <= x
Floor(ev) == MaxOf({FloorOf(ev[i]) : i \in DOMAIN ev})

\* the floor never decreases when events are added (formal content of "surrounding benign data,
\* memo use and the fate of the value do not lower the floor"); checked by TLC in PickleGen runs
FloorMonotone(ev1, ev2) == Len(ev1) <= Len(ev2) /\ SubSeq(ev2, 1, Len(ev1)) = ev1 => Floor(ev1) <= Floor(ev2)

\* ---- C10: the order
OpSem(op, a, b) == CASE op = "lt" -> a < b [] op = "le" -> a <= b [] op = "gt" -> a > b
                     [] op = "ge" -> a >= b [] op = "eq" -> a = b [] op = "ne" -> a # b
=============================================================================
