----------------------------- MODULE CliArgsRel -----------------------------
(* The command line as a decision function (fickling/cli.py main), beyond the *)
(* listed properties: which branch runs for a set of options and a kind of    *)
(* input, and what it leaves behind (exit status, kind and amount of output,  *)
(* report documents, created file).  Transcribed branch by branch, deviations *)
(* of the code from what one would expect are NAMED (see Oddities).           *)
EXTENDS Integers, Sequences, FiniteSets

Flags  == {"version", "create", "inject", "check", "trace", "run_last", "replace", "print", "json"}
Inputs == {"empty", "one_safe", "two_safe", "safe_unsafe", "unsafe_safe", "garbage", "junk_tail", "truncated_tail", "missing"}
Chans  == {"path", "stdin"}
Targets == {-1, 0, 1, 2}

\* what StackedPickle.load makes of the input: number of pickles, or a refusal
NPickles(i) == CASE i \in {"one_safe", "junk_tail"} -> 1          \* bytes after the last complete pickle that do not
                                                                  \* start a pickle end the stack silently
                 [] i \in {"two_safe", "safe_unsafe", "unsafe_safe"} -> 2
                 [] OTHER -> 0
Refused(i)  == i \in {"empty", "garbage", "truncated_tail"}       \* PickleDecodeError -> "Error: ..." and status 1
AllSafe(i)  == i \in {"one_safe", "two_safe", "junk_tail"}

Exclusive(f) == Cardinality(f \cap {"inject", "create", "check"}) > 1

\* exit status: -1 stands for an exception that escapes main(), 2 for argparse's usage error
Expected(f, i, ch, k) ==
  LET n == NPickles(i)
      R(rc, out, nout, err, json, created) ==
         [rc |-> rc, out |-> out, nout |-> nout, err |-> err, json |-> json, created |-> created]
  IN
  IF Exclusive(f) THEN R(2, "none", 0, "usage", 0, FALSE)
  ELSE IF "version" \in f THEN R(0, "text", 0, "none", 0, FALSE)                   \* before anything is opened
  ELSE IF "create" \in f
       THEN (IF ch = "path" THEN R(0, "none", 0, "none", 0, TRUE) ELSE R(0, "pickles", 1, "none", 0, FALSE))
  ELSE IF i = "missing" THEN R(-1, "none", 0, "none", 0, FALSE)                    \* open() raises; nothing is caught
  ELSE IF Refused(i) THEN R(1, "none", 0, "Error", 0, FALSE)
  ELSE IF "inject" \in f
       THEN (IF k >= n THEN R(1, "none", 0, "Error", 0, FALSE)
             \* Oddity (as coded): a negative target is not validated; Python's negative indexing makes
             \* stacked[:k] + [stacked[k] injected] + stacked[k+1:] a stack of (n+k) + 1 + (n-k-1 if k+1 < 0 else n) members
             ELSE IF k < 0
                  THEN (IF -k > n THEN R(-1, "none", 0, "none", 0, FALSE)         \* IndexError escapes
                        ELSE R(0, "pickles", (n + k) + 1 + (IF k + 1 < 0 THEN -(k + 1) ELSE n), "none", 0, FALSE))
             ELSE R(0, "pickles", n, "none", 0, FALSE))
  ELSE IF "check" \in f
       THEN R(IF AllSafe(i) THEN 0 ELSE 1, IF "print" \in f THEN "text" ELSE "none", 0,
              IF "print" \in f /\ ~AllSafe(i) THEN "Warning" ELSE "none", n, FALSE)
  ELSE R(0, "text", 0, "none", 0, FALSE)                                           \* decompile / trace: text only

\* design-level sanity of the table (checked by TLC on every cell)
StatusDomain(f, i, ch, k) == Expected(f, i, ch, k).rc \in {-1, 0, 1, 2}
NoOutputOnFailure(f, i, ch, k) == LET e == Expected(f, i, ch, k) IN e.rc # 0 /\ "check" \notin f => e.out = "none" /\ e.nout = 0
ReportOnlyWhenChecking(f, i, ch, k) == LET e == Expected(f, i, ch, k) IN e.json > 0 => "check" \in f /\ ~Exclusive(f)
=============================================================================
