--------------------------- MODULE ImportHookRel ---------------------------
(* fickling/import_hook.py (experimental, beyond the listed properties): a   *)
(* meta-path finder that answers `import pickle` with a stub module whose    *)
(* only attribute is the checked loader.  State: what sys.modules["pickle"]  *)
(* holds and whether the finder is installed.  Named as coded:               *)
(*   - the stub has `load` and nothing else (no loads / dumps / Unpickler);  *)
(*   - run_import_hook() forgets an already imported pickle module, so the   *)
(*     NEXT import statement yields the stub, while names bound before       *)
(*     (`from pickle import load`, a module's own `pickle` global) keep the  *)
(*     real module;                                                          *)
(*   - every call inserts one more finder (idempotent in effect).            *)
EXTENDS Naturals, Sequences

Mod == {"absent", "real", "stub"}
Ops == {"run_hook", "import", "forget", "probe"}

\* next value of sys.modules["pickle"] and of the finder flag
Step(op, m, installed) ==
  CASE op = "run_hook" -> <<"absent", TRUE>>
    [] op = "import"   -> <<IF m = "absent" THEN (IF installed THEN "stub" ELSE "real") ELSE m, installed>>
    [] op = "forget"   -> <<"absent", installed>>
    [] OTHER           -> <<m, installed>>

\* what a probe through the module obtained by `import pickle` observes (m after the import)
\*  has_load / has_loads : attributes present;  refuses : pickle.load refuses a flagged pickle
Observe(m) == [has_load |-> m \in {"real", "stub"}, has_loads |-> m = "real", refuses |-> m = "stub"]

\* design-level statements: once the hook ran, every later `import pickle` is mediated
Mediated(m, installed) == (installed /\ m # "absent") => (m = "stub" \/ m = "real")     \* (typing)
HookedImportsRefuse(hist, m, installed) ==
  (installed /\ m = "stub") => Observe(m).refuses
=============================================================================
