------------------------------- MODULE Formats -------------------------------
(* C17 generator of zip cells (see FormatsRel for the relation). *)
EXTENDS FormatsRel
\* ---- cells
VARIABLES ms, place, filler, junk, trailer
cvars == <<ms, place, filler, junk, trailer>>
CellInit == /\ ms \in SUBSET Markers /\ place \in {"root", "dir"} /\ filler \in {"none", "data0", "mar"}     \* mar: also holds a manifest (.json), a serialised model (.pt) and code (.py)
            /\ junk \in BOOLEAN /\ trailer \in {"none", "pickle", "tar"}
CellSpec == CellInit /\ [][UNCHANGED cvars]_cvars
EmitCell == PrintT(<<"CELL", ToJson([ms |-> ms, place |-> place, filler |-> filler, junk |-> junk, trailer |-> trailer])>>)
=============================================================================
