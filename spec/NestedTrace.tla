----------------------------- MODULE NestedTrace -----------------------------
(* record (harness/c07child.py): outsider (the configuration contains a global *)
(* outside built-in + additions), out ("returned" | "unsafe" | "other"),       *)
(* resolved <<[n, ok]>> every pickle.find_class audit event during the call    *)
(* with ok = member of the built-in allowlist or of the additions in force,    *)
(* ran <<names>> sink functions that executed                                  *)
EXTENDS Naturals, Sequences, TLC, Json, IOUtils, TLCExt
T == JsonDeserialize(IOEnv.VERIF_TRACE)
VARIABLES tid, done, verdict
vars == <<tid, done, verdict>>
Init == tid \in 1..Len(T) /\ done = FALSE /\ verdict = ""
MayRun(R, i) == \E j \in DOMAIN R.may_run : R.may_run[j] = R.ran[i]        \* (may_run is a sequence, possibly empty)
Why(R) ==
  IF \E i \in DOMAIN R.resolved : ~R.resolved[i].ok
  THEN "a global outside the allowlist was resolved: " \o R.resolved[CHOOSE i \in DOMAIN R.resolved : ~R.resolved[i].ok].n
  ELSE IF \E i \in DOMAIN R.ran : ~MayRun(R, i) THEN "a callable outside the allowlist executed: " \o R.ran[CHOOSE i \in DOMAIN R.ran : ~MayRun(R, i)]
  ELSE IF R.outsider /\ R.out # "unsafe" THEN "a load containing an outsider did not abort with the unsafe-file error (" \o R.out \o ")"
  ELSE IF ~R.outsider /\ R.out # "returned" /\ R.case.layer = "ml"
       \* (R.out = "unsafe": the environment refused a global of the built-in list or of the caller's additions - the set it
       \* enforces is not the one of this activation; any other outcome is a failure of the generated payload itself)
       THEN (IF R.out = "unsafe" THEN "a load naming only permitted globals was refused: the set in force is not the allowlist plus this activation's additions"
             ELSE "MACHINERY: a load of allow-listed globals only did not return (" \o R.out \o ")")
  ELSE "ok"
Judge == /\ ~done /\ done' = TRUE /\ UNCHANGED tid /\ verdict' = Why(T[tid])
Spec == Init /\ [][Judge]_vars
Report == done => PrintT(<<"VERDICT", T[tid].id, ToJson([v |-> verdict])>>)
=============================================================================
