---- MODULE MCA_rules ----
EXTENDS AnalysisGen, Ops
Alpha == { O("MARK"), O("STOP"), GLOBAL("os", "system"), GLOBAL("builtins", "eval"), GLOBAL("builtins", "getattr"),
           GLOBAL("collections", "OrderedDict"), GLOBAL("verif_sink", "hit"), GLOBAL("dill", "loads"), GLOBAL("collections", "eval"), GLOBAL("io", "open"), GLOBAL("glob", "os.system"),
           INST("builtins", "exec"), K1, O("EMPTY_TUPLE"), O("TUPLE1"), O("REDUCE"), O("OBJ"), O("NEWOBJ"), O("BUILD"),
           O("EMPTY_DICT"), O("POP"), O("BINPERSID") }
====
