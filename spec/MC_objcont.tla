---- MODULE MC_objcont ----
(* objects used as containers: SETITEM(S) / APPEND(S) / BUILD on call results (OrderedDict-style pickles) *)
EXTENDS PickleGen, Ops
Alpha == { O("MARK"), O("STOP"), G1, K1, K2, O("EMPTY_TUPLE"), O("REDUCE"), O("NEWOBJ"), O("EMPTY_DICT"), O("EMPTY_LIST"),
           O("APPEND"), O("APPENDS"), O("SETITEM"), O("SETITEMS"), O("BUILD"), O("POP"), O("MEMOIZE"), OA("GET", 0), O("DUP") }
====
