------------------------------ MODULE CliTrace ------------------------------
(* record (harness/props/c18.py):                                            *)
(*  inject   : n, k, rc, out_n (pickles parsed from stdout), out_len (bytes),*)
(*             same <<bool>> (i-th output byte-identical to i-th input),     *)
(*             kth_is_lib (k-th output = the library injector applied to the *)
(*             k-th input with the same flags), runs <<count>> (how often    *)
(*             the injected code ran when loading the i-th output)           *)
(*  decompile: n, rc, compiles, results <<name per pickle in order>>,        *)
(*             vars <<set of assigned temporaries per pickle>>, vals <<[dec, *)
(*             ref]>> canonical value of result_i vs the reference VM's      *)
EXTENDS PickleVM, Json, IOUtils, TLCExt
T == JsonDeserialize(IOEnv.VERIF_TRACE)
VARIABLES tid, done, verdict
vars == <<tid, done, verdict>>
Init == tid \in 1..Len(T) /\ done = FALSE /\ verdict = ""
SeqSet(q) == {q[i] : i \in DOMAIN q}

InjectWhy(R) ==
  IF R.k >= R.n
  THEN IF R.rc = 0 THEN "out-of-range target exits with status 0"
       ELSE IF R.out_len # 0 THEN "out-of-range target emits output" ELSE "ok"
  ELSE IF R.rc # 0 THEN "in-range target fails"
  ELSE IF R.out_n # R.n THEN "emitted " \o ToString(R.out_n) \o " pickles for a stack of " \o ToString(R.n)
  ELSE IF \E i \in 1..R.n : i # R.k + 1 /\ ~R.same[i] THEN "a pickle other than the target was changed"
  ELSE IF ~R.kth_is_lib THEN "the target is not the input's k-th pickle with the injection applied"
  ELSE IF R.runs[R.k + 1] # 1 THEN "injected code ran " \o ToString(R.runs[R.k + 1]) \o " times in the target"
  ELSE IF \E i \in 1..R.n : i # R.k + 1 /\ R.runs[i] # 0 THEN "injected code ran in a pickle other than the target"
  ELSE "ok"

DecompWhy(R) ==
  IF R.rc # 0 THEN "decompilation fails"
  ELSE IF ~R.compiles THEN "output is not one valid Python program"
  ELSE IF Len(R.results) # R.n THEN "not one result per pickle"
  ELSE IF \E i \in 1..R.n : R.results[i] # "result" \o ToString(i - 1) THEN "result names are not result0..result(n-1) in order"
  ELSE IF \E i, j \in 1..R.n : i # j /\ SeqSet(R.vars[i]) \cap SeqSet(R.vars[j]) # {} THEN "a variable of one pickle is reused by another"
  ELSE IF \E i \in 1..R.n : R.vals[i].has /\ ~SameVal(R.vals[i].dec, R.vals[i].ref) THEN "a pickle's value is bound to the wrong result"
  ELSE "ok"

Judge == /\ ~done /\ done' = TRUE /\ UNCHANGED tid
         /\ verdict' = IF T[tid].kind = "inject" THEN InjectWhy(T[tid]) ELSE DecompWhy(T[tid])
Spec == Init /\ [][Judge]_vars
Report == done => PrintT(<<"VERDICT", T[tid].id, ToJson([v |-> verdict])>>)
=============================================================================
