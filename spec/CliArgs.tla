------------------------------- MODULE CliArgs -------------------------------
(* generator of the cells of the command-line decision table + its design invariants *)
EXTENDS CliArgsRel, TLC, Json
VARIABLES f, i, ch, k
vars == <<f, i, ch, k>>
Init == /\ f \in SUBSET Flags /\ i \in Inputs /\ ch \in Chans
        /\ (ch = "stdin" => i # "missing")
        /\ k \in (IF "inject" \in f THEN Targets ELSE {0})
Next == UNCHANGED vars
Spec == Init /\ [][Next]_vars
TableSane == StatusDomain(f, i, ch, k) /\ NoOutputOnFailure(f, i, ch, k) /\ ReportOnlyWhenChecking(f, i, ch, k)
Emit == PrintT(<<"CASE", ToJson([f |-> f, i |-> i, ch |-> ch, k |-> k])>>)
=============================================================================
