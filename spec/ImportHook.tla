----------------------------- MODULE ImportHook -----------------------------
EXTENDS ImportHookRel, TLC, Json
CONSTANTS MaxLen
VARIABLES hist, m, installed
vars == <<hist, m, installed>>
Init == hist = <<>> /\ m = "real" /\ installed = FALSE          \* the interpreter has imported pickle already
Do(op) == LET s == Step(op, m, installed) IN hist' = Append(hist, op) /\ m' = s[1] /\ installed' = s[2]
Next == Len(hist) < MaxLen /\ \E op \in Ops : Do(op)
Spec == Init /\ [][Next]_vars
\* after run_hook, an import never yields the real module again unless the module was not forgotten in between
NeverRealAfterHook == (installed /\ m = "real") => FALSE
\* (as coded this holds: run_hook forgets the module and later imports find the finder first)
Sane == HookedImportsRefuse(hist, m, installed)
Emit == Len(hist) = MaxLen => PrintT(<<"HIST", ToJson(hist)>>)
=============================================================================
