---- MODULE MC_data ----
EXTENDS PickleGen, Ops
Alpha == { O("MARK"), O("STOP"), K1, K2, O("EMPTY_LIST"), O("LIST"), O("APPEND"), O("APPENDS"), O("EMPTY_DICT"), O("DICT"), O("SETITEM"), O("SETITEMS"), O("EMPTY_TUPLE"), O("TUPLE"), O("TUPLE1"), O("TUPLE2"), O("TUPLE3"), O("EMPTY_SET"), O("ADDITEMS"), O("FROZENSET"), O("POP"), O("POP_MARK"), O("DUP") }
====
