------------------------------- MODULE Inject -------------------------------
(* C08: injection adds exactly one call and preserves the base pickle.       *)
(* (1) InjOK(base, new, mode): the property, stated on PickleVM runs of the  *)
(*     base program and of the rewritten program.                            *)
(* (2) A transcription of fickling's helpers (Pickled.insert_python,         *)
(*     append_python, insert_magic_int) as functions from programs to        *)
(*     programs, so that TLC checks the DESIGN of the injector on every      *)
(*     clean base program of a profile (InjectGen.tla).                      *)
EXTENDS PickleVM

InjM == "verif_sink"   InjN == "injected"
InjArg == [o |-> "CONST", ty |-> "str", v |-> "str:'payload'", h |-> "s:'payload'", s |-> "payload"]
InjArgC == [k |-> "c", v |-> "str:'payload'"]
InjG == [k |-> "g", m |-> InjM, n |-> InjN]
MagicOp == [o |-> "CONST", ty |-> "int", v |-> "int:4660", h |-> "n:4660", s |-> ""]

IsInjCall(e) == e.e = "call" /\ SameVal(e.f, InjG) /\ Len(e.a) = 1 /\ SameVal(e.a[1], InjArgC) /\ Len(e.kw) = 0
CountInj(ev) == Cardinality({i \in DOMAIN ev : IsInjCall(ev[i])})

\* evB is a subsequence of evA (same order), events compared structurally
RECURSIVE SubseqFrom(_, _, _, _)
SubseqFrom(evB, i, evA, j) ==
  IF i > Len(evB) THEN TRUE
  ELSE IF j > Len(evA) THEN FALSE
  ELSE IF SameEv(evB[i], evA[j]) THEN SubseqFrom(evB, i + 1, evA, j + 1)
  ELSE SubseqFrom(evB, i, evA, j + 1)
IsSubseqEv(evB, evA) == SubseqFrom(evB, 1, evA, 1)

Count(p, name) == Cardinality({i \in DOMAIN p : p[i].o = name})
InjResult == [k |-> "obj", f |-> InjG, a |-> <<InjArgC>>, kw |-> <<>>, s |-> <<>>, li |-> <<>>, di |-> <<>>]

Keeps(mode)    == mode \in {"first_keep", "last_keep", "append_pop", "magic_end", "magic_idx"}
Replaces(mode) == mode \in {"first_replace", "last_replace", "append_nopop"}
CallsOnce(mode) == mode \notin {"magic_end", "magic_idx"}

\* the property; returns "ok" or the name of the first failing clause
InjWhy(base, new, mode) ==
  LET b == Run(base)  r == Run(new) IN
  IF r.st # "stop" THEN "rewritten program does not run to STOP"
  ELSE IF new[Len(new)].o # "STOP" \/ Count(new, "STOP") # 1 THEN "not exactly one final STOP"
  ELSE IF CallsOnce(mode) /\ CountInj(r.ev) # 1 THEN "injected call not performed exactly once"
  ELSE IF ~CallsOnce(mode) /\ Len(r.ev) # Len(b.ev) THEN "marker changed the effects"
  ELSE IF ~IsSubseqEv(b.ev, r.ev) THEN "an effect of the base pickle is lost or reordered"
  ELSE IF Len(r.ev) # Len(b.ev) + (IF CallsOnce(mode) THEN 2 ELSE 0) THEN "extra effects besides the injected import+call"
  ELSE IF Len(r.stack) # 0 THEN "VM stack not empty at STOP"
  ELSE IF Keeps(mode) /\ ~SameVal(Result(r), Result(b)) THEN "result is not the original object"
  ELSE IF Replaces(mode) /\ ~SameVal(Result(r), InjResult) THEN "result is not the injected call's value"
  ELSE "ok"
InjOK(base, new, mode) == InjWhy(base, new, mode) = "ok"

---------------------------------------------------------------------------
(* transcription of the helpers (fickling/fickle.py)                        *)
Op1(name) == [o |-> name]
Hdr(p)  == LET S == {i \in DOMAIN p : \A j \in 1..i : p[j].o \in {"PROTO", "FRAME"}} IN Cardinality(S)
Pre     == <<[o |-> "GLOBAL", m |-> InjM, n |-> InjN], Op1("MARK"), InjArg, Op1("TUPLE")>>
Body(p) == SubSeq(p, 1, Len(p) - 1)           \* everything but the final STOP
InsAt(p, k, q) == SubSeq(p, 1, k) \o q \o SubSeq(p, k + 1, Len(p))     \* insert q after the first k opcodes

Rewrite(p, mode) ==
  LET h == Hdr(p)
      memoId == Cardinality(DOMAIN Run(p).memo)       \* Interpreter(self).run(); len(interpreter.memory)
  IN CASE mode = "first_keep"    -> InsAt(Body(p), h, Pre \o <<Op1("REDUCE")>>)
                                      \o <<[o |-> "PUT", a |-> 321987], Op1("POP"), Op1("POP"), [o |-> "GET", a |-> 321987], Op1("STOP")>>
       [] mode = "first_replace" -> InsAt(Body(p), h, Pre \o <<Op1("REDUCE")>>) \o <<Op1("POP"), Op1("STOP")>>
       [] mode = "last_keep"     -> InsAt(Body(p), h, Pre)
                                      \o <<Op1("MEMOIZE"), Op1("POP"), Op1("REDUCE"), Op1("POP"), [o |-> "GET", a |-> memoId], Op1("STOP")>>
       [] mode = "last_replace"  -> InsAt(Body(p), h, Pre) \o <<Op1("POP"), Op1("REDUCE"), Op1("STOP")>>
       [] mode = "append_nopop"  -> Body(p) \o Pre \o <<Op1("REDUCE"), Op1("STOP")>>
       [] mode = "append_pop"    -> Body(p) \o Pre \o <<Op1("REDUCE"), Op1("POP"), Op1("STOP")>>
       [] mode = "magic_end"     -> Body(p) \o <<MagicOp, Op1("POP"), Op1("STOP")>>
       [] mode = "magic_idx"     -> InsAt(p, h, <<MagicOp, Op1("POP")>>)
Modes == {"first_keep", "first_replace", "last_keep", "last_replace", "append_nopop", "append_pop", "magic_end", "magic_idx"}

---------------------------------------------------------------------------
(* insert_function_call_on_unpickled_object: define the function (exec of its source, or marshal.loads of its   *)
(* bytecode + exec), obtain it with eval(name), swap it below the unpickled object through memo slots 1 and 2,  *)
(* and REDUCE.  K = [def, name, code, args]: the constants the helper encodes (supplied with the record).        *)
BG(n) == [o |-> "GLOBAL", m |-> "builtins", n |-> n]
AppendPy(g, c, pop) == <<g, Op1("MARK"), c, Op1("TUPLE"), Op1("REDUCE")>> \o (IF pop THEN <<Op1("POP")>> ELSE <<>>)
Swap(args) == <<[o |-> "PUT", a |-> 1], Op1("POP"), [o |-> "PUT", a |-> 2], Op1("POP"), [o |-> "GET", a |-> 1], Op1("MARK"),
                [o |-> "GET", a |-> 2]>> \o args \o <<Op1("TUPLE"), Op1("REDUCE")>>
RewriteFn(p, mode, K) ==
  LET define == IF mode = "fn_compiled"
                THEN AppendPy([o |-> "GLOBAL", m |-> "marshal", n |-> "loads"], K.code, FALSE)
                     \o <<[o |-> "PUT", a |-> 1], Op1("POP"), BG("exec"), Op1("MARK"), [o |-> "GET", a |-> 1], Op1("TUPLE"),
                          Op1("REDUCE"), Op1("POP")>>
                ELSE AppendPy(BG("exec"), K.def, TRUE)
  IN Body(p) \o define \o AppendPy(BG("eval"), K.name, FALSE) \o Swap(IF mode = "fn_args" THEN K.args ELSE <<>>) \o <<Op1("STOP")>>

EvalGC == [k |-> "g", m |-> "builtins", n |-> "eval"]
IsFnApplied(e, bres) == e.e = "call" /\ e.f.k = "obj" /\ SameVal(e.f.f, EvalGC) /\ Len(e.a) >= 1 /\ SameVal(e.a[1], bres)
FnWhyOf(base, new, mode) ==
  LET b == Run(base)  r == Run(new)
      n == Cardinality({i \in DOMAIN r.ev : IsFnApplied(r.ev[i], Result(b))}) IN
  IF r.st # "stop" THEN "rewritten program does not run to STOP"
  ELSE IF new[Len(new)].o # "STOP" \/ Count(new, "STOP") # 1 THEN "not exactly one final STOP"
  ELSE IF n # 1 THEN "function not applied exactly once to the unpickled object"
  ELSE IF ~IsSubseqEv(b.ev, r.ev) THEN "an effect of the base pickle is lost or reordered"
  ELSE IF Len(r.ev) # Len(b.ev) + (IF mode = "fn_compiled" THEN 7 ELSE 5) THEN "unexpected number of added effects"
  ELSE IF Len(r.stack) # 0 THEN "VM stack not empty at STOP"
  ELSE IF ~(Result(r).k = "obj" /\ Result(r).f.k = "obj" /\ SameVal(Result(r).f.f, EvalGC)) THEN "result is not the function's value"
  ELSE "ok"
FnModeSet == {"fn_plain", "fn_args", "fn_compiled"}
\* symbolic constants for the design check
SymK == [def |-> [o |-> "CONST", ty |-> "str", v |-> "str:'def f'", h |-> "s:'def f'", s |-> "def f"],
         name |-> [o |-> "CONST", ty |-> "str", v |-> "str:'f'", h |-> "s:'f'", s |-> "f"],
         code |-> [o |-> "CONST", ty |-> "bytes", v |-> "bytes:b'code'", h |-> "b:b'code'", s |-> ""],
         args |-> <<[o |-> "CONST", ty |-> "int", v |-> "int:7", h |-> "n:7", s |-> ""]>>]
=============================================================================
