------------------------------- MODULE Ops -------------------------------
(* Opcode constructors shared by the profile modules.  Globals and the     *)
(* strings used by STACK_GLOBAL are SYMBOLIC (module "M1", name "N1", ...):*)
(* the harness instantiates each generated shape with every entry of the   *)
(* labelled vocabulary and with every concrete encoding of each opcode.    *)
K(ty, v, h, s) == [o |-> "CONST", ty |-> ty, v |-> v, h |-> h, s |-> s]
K1    == K("int", "int:1", "n:1", "")
K2    == K("str", "str:'a'", "s:'a'", "a")
KNone == K("NoneType", "NoneType:None", "none", "")
SM1   == K("str", "str:'M1'", "s:'M1'", "M1")
SN1   == K("str", "str:'N1'", "s:'N1'", "N1")
O(name)     == [o |-> name]
OA(name, a) == [o |-> name, a |-> a]
GLOBAL(m, n) == [o |-> "GLOBAL", m |-> m, n |-> n]
INST(m, n)   == [o |-> "INST", m |-> m, n |-> n]
G1 == GLOBAL("M1", "N1")
G2 == GLOBAL("M2", "N2")
I1 == INST("M1", "N1")
PersidOp == [o |-> "PERSID", ty |-> "str", v |-> "str:'pid'", h |-> "s:'pid'", s |-> "pid"]
=============================================================================
