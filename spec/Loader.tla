------------------------------- MODULE Loader -------------------------------
(* C02: a checked load is fail-closed and loads exactly the bytes it         *)
(* analysed.  Design model of fickling/loader.py (three steps: parse,        *)
(* analyse, unpickle the re-serialised opcodes) with an environment that may *)
(* change the stream between any two steps, the property FailClosed, and the *)
(* generator of configurations (arm x stream kind x threshold x family x     *)
(* flip point).                                                              *)
EXTENDS Naturals, Sequences, FiniteSets, TLC, Json

CONSTANTS Reread      \* FALSE: as coded (loads(dumps())).  TRUE: the mutant that goes back to the stream

Arm    == {"loader", "loader_json", "hook", "context", "context_t", "hook_after_context"}
Kind   == {"bytes", "seekable", "nonseekable"}
Sev    == 0..5
\* families of the analysed pickle A: its verdict, or "crash" when parsing/analysis raises
Family == {"data", "bigdata", "unused", "dupproto", "sink", "getpid", "eval", "float0", "truncated", "underflow", "nomemo", "persid", "pkgsub",
           "loadfails",
           "badfirst",      \* the first opcode is one the parser refuses (an unknown opcode byte, a malformed argument); a well-formed flagged pickle follows in the stream
           "py2str"}        \* LIKELY_SAFE data whose value depends on the unpickling options the caller passes (8-bit strings)     \* analysed and rated like "sink", but the real unpickler raises (a global that cannot be resolved)
VerdictOf(f) == CASE f \in {"data", "bigdata", "py2str"} -> 0 [] f = "unused" -> 2 [] f = "dupproto" -> 3 [] f \in {"sink", "pkgsub", "loadfails"} -> 3 [] f = "getpid" -> 4 [] f = "eval" -> 5 [] OTHER -> 9
Crashes(f) == VerdictOf(f) = 9

VARIABLES arm, kind, t, fam,     \* configuration
          content,               \* what the stream serves now: "A" or "B"
          phase,                 \* idle parsed analysed loading returned raised crashed
          seen, executed         \* which pickle the parser saw / the unpickler ran ("-" = none)
vars == <<arm, kind, t, fam, content, phase, seen, executed>>

Init == /\ arm \in Arm /\ kind \in Kind /\ t \in Sev /\ fam \in Family
        /\ content = "A" /\ phase = "idle" /\ seen = "-" /\ executed = "-"

Acc == IF arm \in {"loader", "loader_json", "context_t"} THEN t ELSE 0       \* accepted severity
Mutate  == phase \in {"parsed", "analysed", "loading"} /\ kind # "bytes" /\ content = "A" /\ content' = "B"
           /\ UNCHANGED <<arm, kind, t, fam, phase, seen, executed>>
Parse   == phase = "idle" /\ seen' = content
           /\ phase' = (IF fam \in {"float0", "truncated", "badfirst"} THEN "crashed" ELSE "parsed")
           /\ UNCHANGED <<arm, kind, t, fam, content, executed>>
Analyse == phase = "parsed"
           /\ phase' = (IF Crashes(fam) THEN "crashed" ELSE IF VerdictOf(fam) <= Acc THEN "analysed" ELSE "raised")
           /\ UNCHANGED <<arm, kind, t, fam, content, seen, executed>>
Load    == phase = "analysed" /\ phase' = (IF fam = "loadfails" THEN "failed" ELSE "returned")   \* failed: the stock unpickler raised
           /\ executed' = (IF Reread /\ kind # "bytes" THEN content ELSE seen)
           /\ UNCHANGED <<arm, kind, t, fam, content, seen>>
Next == Mutate \/ Parse \/ Analyse \/ Load
Spec == Init /\ [][Next]_vars

FailClosed ==
  /\ phase = "returned" => VerdictOf(fam) <= Acc /\ executed = seen /\ seen = "A"
  /\ phase \in {"raised", "crashed"} => executed = "-"
  /\ phase = "failed" => VerdictOf(fam) <= Acc /\ executed = seen /\ seen = "A"        \* only an ACCEPTED load may fail inside the unpickler
  /\ (~Crashes(fam) /\ VerdictOf(fam) > Acc /\ phase \notin {"idle", "parsed"}) => phase = "raised"
Done == phase \in {"returned", "raised", "crashed", "failed"}
Emit == (phase = "idle") => PrintT(<<"CASE", ToJson([arm |-> arm, kind |-> kind, t |-> t, fam |-> fam])>>)
=============================================================================
