-------------------------------- MODULE Cli --------------------------------
(* C18: the CLI on stacked pickles.  Configuration generator and the model  *)
(* of what `--inject` / plain decompilation must produce.                   *)
EXTENDS Naturals, Sequences, FiniteSets, TLC, Json
CONSTANTS MaxN
Family == {"plain", "calls", "memo", "proto0atom", "reinjected"}
VARIABLES n, k, runLast, replace, chan, fams
vars == <<n, k, runLast, replace, chan, fams>>
Init == /\ n \in 1..MaxN /\ k \in 0..n /\ runLast \in BOOLEAN /\ replace \in BOOLEAN /\ chan \in {"file", "stdin"}
        /\ fams \in [1..n -> Family]
Next == UNCHANGED vars
Spec == Init /\ [][Next]_vars
\* the model: what injection into target k of a stack of n must yield
ExpectedRc   == IF k < n THEN 0 ELSE 1
ExpectedOutN == IF k < n THEN n ELSE 0
Emit == PrintT(<<"CASE", ToJson([n |-> n, k |-> k, run_last |-> runLast, replace |-> replace, chan |-> chan, fams |-> fams])>>)
=============================================================================
