------------------------------- MODULE PolyFS -------------------------------
(* Design model of fickling.polyglot.create_polyglot as a file-system        *)
(* protocol: copy both inputs to temp_*, identify both, build, remove the     *)
(* temporaries.  A failure may strike after any step (crash_points).          *)
EXTENDS Naturals, Sequences, FiniteSets, TLC
CONSTANT Guarded        \* TRUE: temporaries are removed in a finally block (as coded after the fix)
Steps == <<"copy1", "copy2", "identify1", "identify2", "build", "rm1", "rm2">>
VARIABLES pc, files, ok
vars == <<pc, files, ok>>
Init == pc = 1 /\ files = {"in1", "in2"} /\ ok = FALSE
Effect(s) == CASE s = "copy1" -> files \cup {"temp1"} [] s = "copy2" -> files \cup {"temp2"}
               [] s = "build" -> files \cup {"out"} [] s = "rm1" -> files \ {"temp1"} [] s = "rm2" -> files \ {"temp2"}
               [] OTHER -> files
Cleanup(fs) == IF Guarded THEN fs \ {"temp1", "temp2"} ELSE fs
StepOK == pc \in DOMAIN Steps /\ files' = Effect(Steps[pc]) /\ pc' = pc + 1 /\ ok' = (Steps[pc] = "build" \/ ok)
Fail   == pc \in DOMAIN Steps /\ pc' = 99 /\ files' = Cleanup(files) /\ UNCHANGED ok         \* the step raises
Finish == pc = Len(Steps) + 1 /\ pc' = 100 /\ UNCHANGED <<files, ok>>
Next == StepOK \/ Fail \/ Finish
Spec == Init /\ [][Next]_vars
Clean == pc \in {99, 100} => files \subseteq {"in1", "in2", "out"} /\ {"in1", "in2"} \subseteq files
=============================================================================
