------------------------------ MODULE Analysis ------------------------------
(* Design model of fickling's rule set (fickling/analysis.py + ml.py) as a    *)
(* function of what the decompiler emits for the reference machine's event    *)
(* log: one operator per Analysis subclass, in Analysis.ALL order, sharing    *)
(* the de-duplication set.  TLC checks  ModelVerdict(ev) >= Floor(ev)  on     *)
(* every program of a concrete-vocabulary alphabet (AnalysisGen.tla): the     *)
(* design-level statement of C04.                                             *)
EXTENDS PickleVM, Verdict

CONSTANTS PollutedDedup,    \* TRUE: BadCalls registers every call text before OvertlyBadEvals looks (the pinned defect)
          BadCallsExempt,   \* TRUE: BadCalls also skips calls whose name is bound by a standard-library import (a mutated design)
          DottedExempt      \* TRUE: the exemption looks at the first component of a dotted callee (a mutated design)

IsStd(m) == ModCat(m) \in {"benign_std", "dangerous"} /\ m \notin {"dill", "dill._dill", "torch.hub", "torch.hub.x"}
Emitted(e) == e.e = "import" /\ e.m # "builtins"          \* the decompiler emits no import for builtins

\* NonStandardImports / MLAllowlist: an emitted import from outside the standard library
NonStd(e)        == IF Emitted(e) /\ ~IsStd(e.m) THEN LIKELY_UNSAFE ELSE LIKELY_SAFE
\* UnsafeImportsML (module or a parent in UNSAFE_MODULES; the name `eval`) and UnsafeImports
UnsafeImport(e)  == IF Emitted(e) /\ (ModCat(e.m) = "dangerous" \/ e.n = "eval") THEN LIKELY_OVERTLY_MALICIOUS ELSE LIKELY_SAFE
\* BadCalls: the call text starts with exec( eval( compile( open(  -- the bare name, whatever the module
\* OvertlyBadEvals: every other call whose name is not bound by a standard-library import
\* (a dotted callee is an attribute access in the decompiled program, not a bare name: never exempt as coded)
Exempt(e)        == e.f.k = "g" /\ e.f.m # "builtins" /\ IsStd(e.f.m) /\ (e.f.n \notin Dotted \/ DottedExempt)
BadCall(e)       == IF e.e = "call" /\ e.f.k = "g" /\ e.f.n \in Evalish /\ ~(BadCallsExempt /\ Exempt(e))
                    THEN OVERTLY_MALICIOUS ELSE LIKELY_SAFE
OvertlyBad(e)    == IF e.e # "call" \/ Exempt(e) THEN LIKELY_SAFE
                    ELSE IF e.f.k = "g" /\ e.f.n \in Evalish THEN OVERTLY_MALICIOUS
                    ELSE IF PollutedDedup THEN LIKELY_SAFE          \* "already reported" by BadCalls' bookkeeping
                    ELSE LIKELY_UNSAFE

RuleMax(e) == MaxOf({NonStd(e), UnsafeImport(e), BadCall(e), OvertlyBad(e)})
ModelVerdict(ev) == MaxOf({RuleMax(ev[i]) : i \in DOMAIN ev})
DesignFloorOK(ev) == ModelVerdict(ev) >= Floor(ev)
=============================================================================
