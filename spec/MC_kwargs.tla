---- MODULE MC_kwargs ----
(* NEWOBJ_EX with a non-empty keyword dictionary: keyword names that are identifiers, names that are not        *)
(* (cls.__new__(cls, *args, **kwargs) accepts any text as a keyword name), and the same name set twice          *)
EXTENDS PickleGen, Ops
KDash == K("str", "str:'a-b'", "s:'a-b'", "a-b")
Alpha == { O("MARK"), O("STOP"), G1, K1, K2, KDash, O("EMPTY_TUPLE"), O("EMPTY_DICT"), O("DICT"), O("SETITEM"), O("NEWOBJ_EX") }
====
