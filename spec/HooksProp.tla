----------------------------- MODULE HooksProp -----------------------------
(* C12, property level.  What the USER asked for is tracked by ghost state: *)
(*   g     the global check is armed            (always_check_safety)       *)
(*   m     the safe ML environment is active    (activate_.../remove_hook)  *)
(*   open  stack of entry snapshots <<g, m>> of the open safety contexts    *)
(*   mixed a global operation was issued while a context was open           *)
(* What is OBSERVED after every step: for each of the four entry points of  *)
(* the pickle module, blocks[b] (a flagged probe through it is refused and  *)
(* nothing of it runs) and orig[b] (the binding is the original function).  *)
(*                                                                          *)
(* Where the text admits several readings (what "restores" means when a     *)
(* global operation was issued inside a context) every reading is a ghost   *)
(* successor; a history is rejected only when NO reading admits what was    *)
(* observed.  Succ returns the set of admitted ghost successors.            *)
EXTENDS Naturals, Sequences, FiniteSets

BI == 1..4        \* 1 pickle.load  2 pickle.loads  3 _pickle.load  4 _pickle.loads

Ghost0 == [g |-> FALSE, m |-> FALSE, a |-> FALSE, open |-> <<>>, mixed |-> FALSE]    \* a: the active ML environment has additions

\* protection expected from a ghost state.  The global check and the context are documented to
\* cover pickle.load only; the ML environment covers all four.
Exp(g, m, ctx) == [i \in BI |-> m \/ (i = 1 /\ (g \/ ctx))]

\* P1 (lower bound, every step): asked-for protections are in force.  `blocks` is observed with a probe
\* that both the static check and the ML allowlist refuse; `mlb` with a probe only the ML allowlist
\* refuses (a global the static check rates LIKELY_SAFE): while the ML environment is active it must be
\* refused through all four entry points whatever else is layered on top of pickle.load.
LowerOK(blocks, x) ==
  /\ x.m => \A i \in BI : blocks[i]
  /\ ((x.g \/ x.open # <<>>) /\ ~x.mixed) => blocks[1]
MLOK(mlb, x) == x.m => \A i \in BI : mlb[i]
\* `addb` is observed with a probe naming a global that only an activation WITH additions permits: an environment
\* activated without additions must refuse it, whatever earlier activations allowed
AddOK(addb, x) == (x.m /\ ~x.a) => \A i \in BI : addb[i]

\* P3: after removal with no context open all four bindings are the original functions
RemoveOK(orig, x) == x.open = <<>> => \A i \in BI : orig[i]

Glob(x, g2, m2, a2) == [x EXCEPT !.g = g2, !.m = m2, !.a = a2, !.mixed = (x.mixed \/ x.open # <<>>)]

\* P2 (exactness on leaving a context)
ExitSucc(x, blocks) ==
  IF x.open = <<>> THEN {}
  ELSE LET n2   == Len(x.open) - 1
           rest == SubSeq(x.open, 1, n2)
           gs   == IF x.mixed THEN {x.g} \cup {x.open[i][1] : i \in DOMAIN x.open} ELSE {x.g}
           ms   == IF x.mixed THEN {x.m} \cup {x.open[i][2] : i \in DOMAIN x.open} ELSE {x.m}
           cs   == IF n2 = 0 THEN {FALSE} ELSE IF x.mixed THEN BOOLEAN ELSE {TRUE}
       IN {[g |-> g2, m |-> m2, a |-> (x.a /\ m2), open |-> rest, mixed |-> (IF n2 = 0 THEN FALSE ELSE x.mixed)] :
              <<g2, m2>> \in {p \in gs \X ms : \E c \in cs : blocks = Exp(p[1], p[2], c)}}

Succ(x, op, blocks, orig, mlb, addb) ==
  LET keep(y) == IF LowerOK(blocks, y) /\ MLOK(mlb, y) /\ AddOK(addb, y) THEN {y} ELSE {} IN
  CASE op = "arm" -> keep(Glob(x, TRUE, x.m, x.a))
    [] op = "activate" -> keep(Glob(x, x.g, TRUE, FALSE))
    [] op = "activate_add" -> keep(Glob(x, x.g, TRUE, TRUE))
    [] op = "remove" -> LET y == Glob(x, FALSE, FALSE, FALSE) IN IF RemoveOK(orig, y) THEN keep(y) ELSE {}
    [] op = "new" -> keep(x)          \* constructing a manager asks for nothing yet
    \* enter_t: a manager built with an explicit threshold (SUSPICIOUS: still below the flagged probe, so whether the code
    \* honours the parameter or ignores it, the probe is refused inside and leaving restores what was in force on entry)
    [] op \in {"enter", "enter_t"} -> keep([x EXCEPT !.open = Append(x.open, <<x.g, x.m>>)])      \* what is in force ON ENTRY is what leaving restores
    [] op \in {"exit", "exit_exc"} -> UNION {keep(y) : y \in ExitSucc(x, blocks)}
    [] OTHER -> {}

Clause(op) == IF op \in {"exit", "exit_exc"} THEN "P2 (context exit does not restore the protection)"
              ELSE IF op = "remove" THEN "P3/P1 (after remove)" ELSE "P1 (protection not in force)"
=============================================================================
