---- MODULE MC_ext ----
(* extension codes (EXT1 / EXT2 / EXT4 with a code registered through copyreg): the machine resolves the code to a global *)
(* through find_class; a decompiler that models them must show that import and the calls made with the result            *)
EXTENDS PickleGen, Ops
ExtOp == [o |-> "EXT", a |-> 64]
Alpha == { O("MARK"), O("STOP"), ExtOp, K1, O("EMPTY_TUPLE"), O("TUPLE1"), O("REDUCE"), O("OBJ"), O("NEWOBJ"), O("POP"), O("MEMOIZE"), OA("GET", 0) }
====
