------------------------------- MODULE Cache -------------------------------
(* C14: edits through the opcode-sequence interface keep every derived view *)
(* coherent.  Design model of fickling.fickle.Pickled's two caches          *)
(* (_ast, _properties) under every mutator of the MutableSequence interface *)
(* and the injection helpers, plus the generator of edit/read histories.    *)
(*                                                                          *)
(* ver      version of the opcode list (every edit makes a new one)         *)
(* valid    whether the current list decompiles (edits may break it)        *)
(* astOf    -1 (no cache) or the version the cached program was built from  *)
(* propsOf  -1 or the version the cached import/call summary was built from *)
(* partial  the summary object exists but was never filled (decompile raised)*)
EXTENDS Integers, Sequences, FiniteSets, TLC, Json

CONSTANTS MaxLen,
          ResetOnInsert,     \* as coded: TRUE.  FALSE = the mutant "insert keeps the caches"
          AssignAfterVisit   \* TRUE: properties assigns the cache only after a successful visit

\* primitive mutators (each is one critical section of Pickled) and what the mix-ins reduce to
Edit == {"insert", "setitem", "delitem", "append", "extend", "iadd", "pop", "remove", "reverse",
         "setslice", "delslice", "clear_refill",
         "insert_python", "insert_python_last", "append_python", "insert_magic_int",
         "insert_function_call", "insert_python_obj",
         \* edits whose argument is an iterable that RAISES part-way (the caller catches the exception and goes on using the
         \* object): whatever was consumed before is in the list, so the same coherence is owed
         "extend_raises", "iadd_raises", "setslice_raises",
         \* a slice assignment whose right-hand side is a lazy iterable that READS derived views of the same pickle while it
         \* is consumed (an in-place filter written as a generator): the reads happen between the start of the assignment and
         \* the replacement of the list
         "setslice_reentrant"}
View == {"source", "ast", "imports", "calls", "flags", "severity", "findings", "unused", "nonstd", "unsafe"}
UsesProps == {"imports", "calls", "flags", "severity", "findings", "nonstd", "unsafe"}

VARIABLES hist, ver, valid, astOf, propsOf, partial
vars == <<hist, ver, valid, astOf, propsOf, partial>>

Init == hist = <<>> /\ ver = 0 /\ valid = TRUE /\ astOf = -1 /\ propsOf = -1 /\ partial = FALSE

\* every primitive resets both caches; insert is the one the helpers and most mix-ins go through
DoEdit(e) ==
  /\ ver' = ver + 1
  /\ valid' \in BOOLEAN
  /\ IF e \in {"insert", "append", "extend", "iadd", "insert_python", "insert_python_last", "append_python",
               "insert_magic_int", "insert_function_call", "insert_python_obj", "clear_refill", "extend_raises", "iadd_raises"} /\ ~ResetOnInsert
     THEN UNCHANGED <<astOf, propsOf, partial>>
     ELSE astOf' = -1 /\ propsOf' = -1 /\ partial' = FALSE
  /\ hist' = Append(hist, e)

ReadView(v) ==
  /\ hist' = Append(hist, v)
  /\ UNCHANGED <<ver, valid>>
  /\ IF v \in UsesProps
     THEN IF propsOf # -1 THEN UNCHANGED <<astOf, propsOf, partial>>          \* served from the cache
          ELSE IF valid THEN propsOf' = ver /\ partial' = FALSE /\ astOf' = (IF astOf = -1 THEN ver ELSE astOf)
          ELSE \* decompilation raises inside the property
               IF AssignAfterVisit THEN UNCHANGED <<astOf, propsOf, partial>>
               ELSE propsOf' = ver /\ partial' = TRUE /\ UNCHANGED astOf
     ELSE IF v = "unused" THEN UNCHANGED <<astOf, propsOf, partial>>           \* builds its own interpreter
     ELSE IF astOf # -1 \/ ~valid THEN UNCHANGED <<astOf, propsOf, partial>>
     ELSE astOf' = ver /\ UNCHANGED <<propsOf, partial>>

Next == Len(hist) < MaxLen /\ ((\E e \in Edit : DoEdit(e)) \/ (\E v \in View : ReadView(v)))
Spec == Init /\ [][Next]_vars

\* ---- the property on the design: a cache, when present, was computed from the current list
Coherent == /\ astOf \in {-1, ver}
            /\ propsOf \in {-1, ver}
            /\ ~partial

\* ---- history generation: worth replaying when it ends with a read and contains an edit
HasEdit == \E i \in DOMAIN hist : hist[i] \in Edit
Emit == (Len(hist) = MaxLen /\ hist[Len(hist)] \in View /\ HasEdit) => PrintT(<<"HIST", ToJson(hist)>>)
=============================================================================
