---- MODULE MC_sharing ----
EXTENDS PickleGen, Ops
Alpha == { O("MARK"), O("STOP"), O("EMPTY_LIST"), O("EMPTY_DICT"), O("EMPTY_SET"), K1, K2, OA("PUT", 0), OA("PUT", 1), OA("PUT", 5), OA("GET", 0), OA("GET", 1), OA("GET", 5), O("MEMOIZE"), O("DUP"), O("APPEND"), O("SETITEM"), O("ADDITEMS"), O("TUPLE2"), O("LIST") }
====
