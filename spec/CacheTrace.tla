----------------------------- MODULE CacheTrace -----------------------------
(* Validation of recorded edit/read histories (harness/props/c14.py).        *)
(* step: [k |-> "edit" | "read", name, obj, fresh, concat]                   *)
(*   obj    digest of the view on the edited object                          *)
(*   fresh  digest of the same view on Pickled(list(p)) built at that moment *)
(*   concat dumps() = concatenation of the current opcodes' encodings        *)
EXTENDS Naturals, Sequences, FiniteSets, TLC, Json, IOUtils, TLCExt

T == JsonDeserialize(IOEnv.VERIF_TRACE)
VARIABLES tid, l, lastEdit, verdict
vars == <<tid, l, lastEdit, verdict>>
Init == tid \in 1..Len(T) /\ l = 0 /\ lastEdit = "-" /\ verdict = "running"

StepT ==
  LET R == T[tid]  i == l + 1  st == R.steps[i] IN
  /\ verdict = "running" /\ l < Len(R.steps)
  /\ l' = i /\ UNCHANGED tid
  /\ lastEdit' = IF st.k = "edit" THEN st.name ELSE lastEdit
  /\ verdict' = IF ~st.concat THEN "rejected: dumps is not the concatenation of the opcodes after " \o st.name
                ELSE IF st.k = "read" /\ st.obj # st.fresh
                     THEN "rejected: stale " \o st.name \o " after " \o lastEdit
                ELSE IF i = Len(R.steps) THEN "accepted" ELSE "running"
Empty == verdict = "running" /\ Len(T[tid].steps) = 0 /\ verdict' = "accepted" /\ UNCHANGED <<tid, l, lastEdit>>
Next == StepT \/ Empty
Spec == Init /\ [][Next]_vars
Report == verdict # "running" => PrintT(<<"VERDICT", T[tid].id, ToJson([v |-> verdict, n |-> l, e |-> lastEdit])>>)
=============================================================================
