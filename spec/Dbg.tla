---- MODULE Dbg ----
EXTENDS PickleVM, Json, IOUtils, TLCExt
T == JsonDeserialize("/tmp/dbg_tr.json")
S == Run(T[1].prog)
ASSUME PrintT(<<"spec", Result(S)>>)
ASSUME PrintT(<<"ref", T[1].ref.res>>)
ASSUME PrintT(<<"same", SameVal(T[1].ref.res, Result(S))>>)
VARIABLE x
Init == x = 0
Next == UNCHANGED x
====
