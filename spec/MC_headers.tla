---- MODULE MC_headers ----
EXTENDS PickleGen, Ops
Alpha == { O("MARK"), O("STOP"), OA("PROTO", 0), OA("PROTO", 2), OA("PROTO", 4), OA("PROTO", 5), O("FRAME"), G1, K1, O("EMPTY_TUPLE"), O("TUPLE1"), O("REDUCE"), O("EMPTY_LIST"), O("APPEND"), O("POP"), O("MEMOIZE"), OA("GET", 0) }
====
