------------------------------- MODULE Faces -------------------------------
(* C10: all faces of the safety check agree on one per-pickle severity, and *)
(* Severity is a strict total order identical to its documented ranking.    *)
(* Generator half: severity vectors of 1..3 stacked pickles x CLI options   *)
(* and the 36 x 6 comparison cells.  FacesTrace validates what the library, *)
(* the loader, the CLI and the JSON report actually said.                   *)
EXTENDS Verdict, TLC, Json

CONSTANTS MaxStack
Reachable == {0, 2, 3, 4, 5}          \* no rule of the analysis yields POSSIBLY_UNSAFE; the order half covers it
CliOpts == {"default", "print", "json", "print+json",
            "json_bad"}      \* the report path cannot be opened for appending (a missing directory): whatever the CLI does
                             \* about it, its exit status must not be zero for a file that holds a flagged pickle
CmpOps == {"lt", "le", "gt", "ge", "eq", "ne"}
\* how the file reaches the CLI: named on the command line, redirected standard input (seekable), or a pipe
\* (standard input that cannot seek: the stack must still be read to its end)
Channels == {"path", "stdin", "pipe"}

VARIABLES kind, vec, opt, cell, chan
vars == <<kind, vec, opt, cell, chan>>
Init == \/ /\ kind = "faces" /\ opt \in CliOpts /\ cell = <<>> /\ chan \in Channels
           /\ \E n \in 1..MaxStack : vec \in [1..n -> Reachable]
        \/ /\ kind = "cmp" /\ vec = <<>> /\ opt = "default" /\ chan = "path"
           /\ \E a \in Sev, b \in Sev, o \in CmpOps : cell = <<a, b, o>>
Next == UNCHANGED vars
Spec == Init /\ [][Next]_vars

\* what every face must say for a severity vector (the design of "one severity, many faces")
CliRc(v) == IF \A i \in DOMAIN v : v[i] = 0 THEN 0 ELSE 1
LoaderRaises(v, t) == v[1] > t
Emit == PrintT(<<"CASE", ToJson([kind |-> kind, vec |-> vec, opt |-> opt, cell |-> cell, chan |-> chan])>>)
=============================================================================
