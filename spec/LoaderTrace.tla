----------------------------- MODULE LoaderTrace -----------------------------
(* record (harness/c02child.py), one checked load:                            *)
(*  arm, kind, t (threshold rank), v (rank the library gives A, 9 = analysis  *)
(*  raises), out ("returned" | "unsafe" | "other"), info (rank carried by the *)
(*  unsafe-file error, -1 none), resolved (find_class + import-of-named-module*)
(*  events during the call), ranA / ranB (sink calls of A / of the swapped-in  *)
(*  B), eq_stock (returned object equals the stock unpickler's for A)          *)
EXTENDS Integers, Sequences, TLC, Json, IOUtils, TLCExt
T == JsonDeserialize(IOEnv.VERIF_TRACE)
VARIABLES tid, done, verdict
vars == <<tid, done, verdict>>
Init == tid \in 1..Len(T) /\ done = FALSE /\ verdict = ""

\* accepted severities: the explicit loader honours its threshold; the hook and the `with` form use
\* the fixed default; a context manager built with an explicit threshold may honour it or the default
AccSet(R) == IF R.arm \in {"loader", "loader_json"} THEN {R.t} ELSE IF R.arm = "context_t" THEN {R.t, 0} ELSE {0}

Why(R) ==
  IF R.out = "returned" THEN
       IF R.v = 9 THEN "returned although analysis fails on these bytes"
       ELSE IF \A a \in AccSet(R) : R.v > a THEN "returned above the accepted severity"
       ELSE IF R.ranB > 0 THEN "executed bytes that were not analysed (stream changed between analysis and load)"
       ELSE IF ~R.eq_stock THEN "returned object differs from the stock unpickler's"
       ELSE "ok"
  ELSE \* not returned
       \* (a load that was ACCEPTED and then fails inside the stock unpickler - a global that cannot be resolved - is not a
       \* refusal: resolution was legitimately attempted; nothing of B may have run and nothing of A may have been called)
       IF R.v # 9 /\ (\E a \in AccSet(R) : R.v <= a) /\ R.out = "other" /\ R.ranA = 0 /\ R.ranB = 0 /\ R.stock_raises THEN "ok"      \* (the stock unpickler raises on these bytes with these options)
       ELSE IF R.resolved > 0 \/ R.ranA > 0 \/ R.ranB > 0 THEN "something named in the pickle was resolved or called although the load did not return"
       ELSE IF R.v # 9 /\ R.out # "unsafe" /\ (\A a \in AccSet(R) : R.v > a) THEN "verdict above the accepted severity but the error is not the unsafe-file error"
       ELSE IF R.v # 9 /\ R.out = "unsafe" /\ R.info # R.v THEN "unsafe-file error carries another verdict"
       ELSE IF R.v # 9 /\ R.arm \in {"loader", "loader_json"} /\ R.v <= R.t THEN "raised at or below the accepted severity"
       ELSE IF R.v # 9 /\ R.arm \in {"hook", "context", "hook_after_context"} /\ R.v = 0 THEN "raised on a LIKELY_SAFE pickle"
       ELSE "ok"

Judge == /\ ~done /\ done' = TRUE /\ UNCHANGED tid /\ verdict' = Why(T[tid])
Spec == Init /\ [][Judge]_vars
Report == done => PrintT(<<"VERDICT", T[tid].id, ToJson([v |-> verdict])>>)
=============================================================================
