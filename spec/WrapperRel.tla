----------------------------- MODULE WrapperRel -----------------------------
(* PyTorchModelWrapper.validate_file_format (fickling/pytorch.py) as a        *)
(* decision function of the identified format list and the `force` flag:     *)
(* beyond the listed properties.  Transcribed branch by branch; what the code *)
(* does that one would not expect is named (Oddity).                          *)
EXTENDS Naturals, Sequences, FiniteSets

Formats == {"TorchScript v1.4", "TorchScript v1.3", "TorchScript v1.0", "TorchScript v1.1", "PyTorch v1.3",
            "PyTorch v0.1.1", "PyTorch v0.1.10", "PyTorch model archive format"}
Has(fs, f) == \E j \in DOMAIN fs : fs[j] = f
Supported(fs) == Has(fs, "PyTorch v1.3") \/ Has(fs, "TorchScript v1.4")

\* outcome: the exception class that escapes ("none" when the list is returned) and the number of warnings issued
Validate(fs, force) ==
  LET R(exc, w) == [exc |-> exc, warnings |-> w] IN
  IF Len(fs) = 0
  THEN (IF ~force THEN R("ValueError", 0)
        \* Oddity (as coded): with force=True an unidentified file is warned about twice (both "not identified" and
        \* "no wrapper for that format") and then `self._formats[0]` raises IndexError: force does not help here
        ELSE R("IndexError", 2))
  ELSE IF ~Supported(fs)
  THEN (IF Has(fs, "PyTorch v0.1.10")
        THEN (IF force THEN R("none", 1) ELSE R("ValueError", 0))
        ELSE (IF force THEN R("none", 1) ELSE R("NotImplementedError", 0)))
  ELSE R("none", IF fs[1] = "TorchScript v1.4" THEN 1 ELSE 0)

\* design-level statements about the table (checked by TLC on every cell)
\* a refusal never comes with a warning; acceptance without force implies a supported format
RefusalIsSilent(fs, force) == LET v == Validate(fs, force) IN (v.exc \in {"ValueError", "NotImplementedError"}) => v.warnings = 0
AcceptedMeansSupportedOrForced(fs, force) == Validate(fs, force).exc = "none" => (Supported(fs) \/ force)
UnforcedUnsupportedRefused(fs) == ~Supported(fs) => Validate(fs, FALSE).exc # "none"
=============================================================================
