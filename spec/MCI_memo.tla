---- MODULE MCI_memo ----
EXTENDS InjectGen, Ops
Alpha == { O("MARK"), O("STOP"), O("EMPTY_LIST"), O("EMPTY_DICT"), K1, K2, OA("PUT", 0), OA("PUT", 1), OA("PUT", 2), OA("PUT", 5), OA("PUT", 321987), OA("GET", 1), OA("GET", 5), OA("GET", 321987), O("MEMOIZE"), O("APPEND"), O("TUPLE2"), O("POP") }
AllModes == Modes
NoNopop == Modes \ {"append_nopop"}
====
