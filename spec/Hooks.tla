------------------------------- MODULE Hooks -------------------------------
(* C12: design model of fickling/hook.py + fickling/context.py (one action  *)
(* per assignment group) and generator of lifecycle histories.  TLC checks  *)
(* on the design, for all histories, the same acceptance relation           *)
(* (HooksProp!Succ) that HooksTrace applies to recorded histories.          *)
EXTENDS HooksProp, TLC, Json

CONSTANTS MaxCtx, MaxLen,
          ExitGuard     \* TRUE: __exit__ as coded after the fix; FALSE: the pinned code

VARIABLES bind,        \* BI -> {"orig", "checked", "ml"}
          ctx,         \* stack of [saved |-> binding of pickle.load when the manager was constructed]
          adds,        \* the closures installed by the last activation carry additions
          G,           \* set of ghost states admitted so far (HooksProp)
          bad,         \* "" or the clause the design violates
          hist
vars == <<bind, ctx, adds, G, bad, hist>>

Orig == [i \in BI |-> "orig"]
Blocks(b) == [i \in BI |-> b[i] # "orig"]
IsOrig(b) == [i \in BI |-> b[i] = "orig"]

Init == bind = Orig /\ ctx = <<>> /\ adds = FALSE /\ G = {Ghost0} /\ bad = "" /\ hist = <<>>

Observe(op, b2) ==
  LET adds2 == IF op = "activate_add" THEN TRUE ELSE IF op \in {"activate", "remove"} THEN FALSE ELSE adds
      \* design: the checked loader ends with pickle.loads(...), so the ML-only probe is refused through pickle.load
      \* iff pickle.load or (when it is the checked loader) pickle.loads is the ML loader
      mlb == [i \in BI |-> b2[i] = "ml" \/ (i = 1 /\ b2[1] = "checked" /\ b2[2] = "ml")]
      \* design: the additions probe is refused exactly by an ML loader built without additions
      addb == [i \in BI |-> mlb[i] /\ ~adds2]
      G2 == UNION {Succ(x, op, Blocks(b2), IsOrig(b2), mlb, addb) : x \in G}
  IN
  /\ adds' = adds2
  /\ bind' = b2 /\ G' = G2 /\ hist' = Append(hist, op)
  /\ bad' = IF G2 = {} THEN Clause(op) ELSE ""

Arm      == Observe("arm", [bind EXCEPT ![1] = "checked"]) /\ UNCHANGED ctx           \* run_hook()
Activate(a) == Observe(a, [i \in BI |-> "ml"]) /\ UNCHANGED ctx                          \* all four bindings
Remove   == Observe("remove", Orig) /\ UNCHANGED ctx                                   \* remove_hook()
Enter    == /\ Len(ctx) < MaxCtx                                                       \* ctor saves, __enter__ hooks
            /\ ctx' = Append(ctx, [saved |-> bind[1]])
            /\ Observe("enter", [bind EXCEPT ![1] = "checked"])
Exit(a)  == /\ ctx # <<>>
            /\ LET top == ctx[Len(ctx)]
                   b2 == IF ~ExitGuard THEN [bind EXCEPT ![1] = top.saved]            \* pinned code
                         ELSE IF bind[1] # "checked" THEN bind                        \* not our hook any more
                         ELSE IF bind[3] # "orig" THEN [bind EXCEPT ![1] = bind[3]]   \* ML env active: its loader
                         ELSE [bind EXCEPT ![1] = top.saved]
               IN Observe(a, b2)
            /\ ctx' = SubSeq(ctx, 1, Len(ctx) - 1)

Next == /\ bad = "" /\ Len(hist) < MaxLen
        /\ (Arm \/ Activate("activate") \/ Activate("activate_add") \/ Remove \/ Enter \/ Exit("exit") \/ Exit("exit_exc"))
Spec == Init /\ [][Next]_vars

DesignOK == bad = ""
TypeOK == bind \in [BI -> {"orig", "checked", "ml"}] /\ \A x \in G : Len(x.open) = Len(ctx)
View == <<bind, ctx, adds, G, bad>>       \* design check without the history variable
Emit == (Len(hist) = MaxLen) => PrintT(<<"HIST", ToJson(hist)>>)
=============================================================================
