------------------------------- MODULE Hooks -------------------------------
(* C12: design model of fickling/hook.py + fickling/context.py (one action  *)
(* per assignment group) and generator of lifecycle histories.  TLC checks  *)
(* on the design, for all histories, the same acceptance relation           *)
(* (HooksProp!Succ) that HooksTrace applies to recorded histories.          *)
EXTENDS HooksProp, TLC, Json

CONSTANTS MaxCtx, MaxLen,
          ExitGuard,    \* TRUE: __exit__ as coded after the fix; FALSE: the pinned code
          SaveAtEnter   \* TRUE: the manager remembers pickle.load when it is ENTERED (as coded after the fix);
                        \* FALSE: when it is constructed (a manager built earlier and entered later restores a stale binding)

VARIABLES bind,        \* BI -> {"orig", "checked", "ml"}
          ctx,         \* stack of [saved |-> binding of pickle.load the manager will restore]
          pending,     \* managers constructed (fickling.check_safety()) and not entered yet, oldest first
          adds,        \* the closures installed by the last activation carry additions
          G,           \* set of ghost states admitted so far (HooksProp)
          bad,         \* "" or the clause the design violates
          hist
vars == <<bind, ctx, pending, adds, G, bad, hist>>

Orig == [i \in BI |-> "orig"]
Blocks(b) == [i \in BI |-> b[i] # "orig"]
IsOrig(b) == [i \in BI |-> b[i] = "orig"]

Init == bind = Orig /\ ctx = <<>> /\ pending = <<>> /\ adds = FALSE /\ G = {Ghost0} /\ bad = "" /\ hist = <<>>

Observe(op, b2) ==
  LET adds2 == IF op = "activate_add" THEN TRUE ELSE IF op \in {"activate", "remove"} THEN FALSE ELSE adds
      \* design: the checked loader ends with pickle.loads(...), so the ML-only probe is refused through pickle.load
      \* iff pickle.load or (when it is the checked loader) pickle.loads is the ML loader
      mlb == [i \in BI |-> b2[i] = "ml" \/ (i = 1 /\ b2[1] = "checked" /\ b2[2] = "ml")]
      \* design: the additions probe is refused exactly by an ML loader built without additions
      addb == [i \in BI |-> mlb[i] /\ ~adds2]
      G2 == UNION {Succ(x, op, Blocks(b2), IsOrig(b2), mlb, addb) : x \in G}
  IN
  /\ adds' = adds2
  /\ bind' = b2 /\ G' = G2 /\ hist' = Append(hist, op)
  /\ bad' = IF G2 = {} THEN Clause(op) ELSE ""

Arm      == Observe("arm", [bind EXCEPT ![1] = "checked"]) /\ UNCHANGED <<ctx, pending>>           \* run_hook()
Activate(a) == Observe(a, [i \in BI |-> "ml"]) /\ UNCHANGED <<ctx, pending>>                          \* all four bindings
Remove   == Observe("remove", Orig) /\ UNCHANGED <<ctx, pending>>                                   \* remove_hook()
\* constructing a manager and entering it are two steps of the code (fickling.check_safety() returns the manager;
\* `with` enters it): other operations may come in between
New      == /\ Len(ctx) + Len(pending) < MaxCtx
            /\ pending' = Append(pending, [saved |-> bind[1]])
            /\ Observe("new", bind) /\ UNCHANGED ctx
Enter    == /\ (pending # <<>> \/ Len(ctx) + Len(pending) < MaxCtx)      \* the oldest constructed manager, or a fresh one
            /\ LET sv == IF SaveAtEnter \/ pending = <<>> THEN bind[1] ELSE pending[1].saved
               IN ctx' = Append(ctx, [saved |-> sv])
            /\ pending' = IF pending = <<>> THEN pending ELSE Tail(pending)
            /\ Observe("enter", [bind EXCEPT ![1] = "checked"])
\* a manager built with a non-default threshold and entered at once (as coded the parameter is ignored: same binding)
EnterT   == /\ Len(ctx) + Len(pending) < MaxCtx
            /\ ctx' = Append(ctx, [saved |-> bind[1]]) /\ UNCHANGED pending
            /\ Observe("enter_t", [bind EXCEPT ![1] = "checked"])
Exit(a)  == /\ ctx # <<>>
            /\ LET top == ctx[Len(ctx)]
                   b2 == IF ~ExitGuard THEN [bind EXCEPT ![1] = top.saved]            \* pinned code
                         ELSE IF bind[1] # "checked" THEN bind                        \* not our hook any more
                         ELSE IF bind[3] # "orig" THEN [bind EXCEPT ![1] = bind[3]]   \* ML env active: its loader
                         ELSE [bind EXCEPT ![1] = top.saved]
               IN Observe(a, b2)
            /\ ctx' = SubSeq(ctx, 1, Len(ctx) - 1) /\ UNCHANGED pending

Next == /\ bad = "" /\ Len(hist) < MaxLen
        /\ (Arm \/ Activate("activate") \/ Activate("activate_add") \/ Remove \/ New \/ Enter \/ EnterT \/ Exit("exit") \/ Exit("exit_exc"))
Spec == Init /\ [][Next]_vars

DesignOK == bad = ""
TypeOK == bind \in [BI -> {"orig", "checked", "ml"}] /\ \A x \in G : Len(x.open) = Len(ctx)
View == <<bind, ctx, pending, adds, G, bad>>       \* design check without the history variable
Emit == (Len(hist) = MaxLen) => PrintT(<<"HIST", ToJson(hist)>>)
=============================================================================
