---- MODULE MCI_headers ----
EXTENDS InjectGen, Ops
Alpha == { O("MARK"), O("STOP"), OA("PROTO", 2), OA("PROTO", 4), O("FRAME"), G1, K1, O("EMPTY_TUPLE"), O("TUPLE1"), O("REDUCE"), O("EMPTY_LIST"), O("APPEND"), O("POP"), O("MEMOIZE"), OA("GET", 0) }
AllModes == Modes
NoNopop == Modes \ {"append_nopop"}
====
