----------------------------- MODULE StreamTrace -----------------------------
(* record (harness/props/c06.py):                                             *)
(*  kind, offset, widths <<w1..wn>> (byte length of each complete pickle),    *)
(*  trail ("none"|"junk"|"truncated"), trail_w, stock_end (where the stock     *)
(*  unpickler stops, relative to offset),                                      *)
(*  first : ok, dumps_len, dumps_is_slice, pos_after (-1 when the input has no *)
(*          position), rest_len (bytes still readable afterwards), rest_is_tail*)
(*  loader: ran, returned, pos_after, rest_len, rest_is_tail (fickling.load on *)
(*          the same layout, seekable kinds only)                              *)
(*  stack : ran, ok, n, part_lens <<..>>, parts_are_slices, concat_is_input    *)
EXTENDS Integers, Sequences, TLC, Json, IOUtils, TLCExt
T == JsonDeserialize(IOEnv.VERIF_TRACE)
VARIABLES tid, done, verdict
vars == <<tid, done, verdict>>
Init == tid \in 1..Len(T) /\ done = FALSE /\ verdict = ""

RECURSIVE Sum(_, _)
Sum(q, i) == IF i > Len(q) THEN 0 ELSE q[i] + Sum(q, i + 1)
Total(R) == Sum(R.widths, 1)

Why(R) ==
  LET w1 == R.widths[1]  after == Total(R) - w1 + R.trail_w IN
  IF R.stock_end # w1 THEN "MACHINERY: the layout's first width is not where the stock unpickler stops"
  ELSE IF ~R.first.ok THEN "parsing a stream that begins with a complete pickle fails"
  ELSE IF R.first.dumps_len # w1 \/ ~R.first.dumps_is_slice THEN "re-serialising does not reproduce the bytes of the first pickle"
  ELSE IF R.first.pos_after # -1 /\ R.first.pos_after # R.offset + w1 THEN "stream is not positioned immediately after the first pickle"
  ELSE IF R.kind \notin {"bytes", "bytearray"} /\ (R.first.rest_len # after \/ ~R.first.rest_is_tail) THEN "what follows the first pickle was consumed or altered"
  ELSE IF R.loader.ran /\ R.loader.returned /\ R.loader.pos_after # R.offset + w1 THEN "checked loader: stream is not positioned immediately after the first pickle"
  ELSE IF R.loader.ran /\ R.loader.returned /\ (R.loader.rest_len # after \/ ~R.loader.rest_is_tail) THEN "checked loader: what follows the first pickle was consumed or altered"
  ELSE IF R.stack.ran /\ R.trail = "none" /\ ~R.stack.ok THEN "parsing a concatenation of pickles as a stack fails"
  ELSE IF R.stack.ran /\ R.trail = "none" /\ R.stack.n # Len(R.widths) THEN "stack does not have exactly one element per pickle"
  ELSE IF R.stack.ran /\ R.trail = "none" /\ (R.stack.part_lens # R.widths \/ ~R.stack.parts_are_slices) THEN "an element does not re-serialise to its own bytes"
  ELSE IF R.stack.ran /\ R.trail = "none" /\ ~R.stack.concat_is_input THEN "concatenating the parts does not give back the input"
  ELSE "ok"

Judge == /\ ~done /\ done' = TRUE /\ UNCHANGED tid /\ verdict' = Why(T[tid])
Spec == Init /\ [][Judge]_vars
Report == done => PrintT(<<"VERDICT", T[tid].id, ToJson([v |-> verdict])>>)
=============================================================================
