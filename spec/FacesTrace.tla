----------------------------- MODULE FacesTrace -----------------------------
(* record kinds (harness/props/c10.py):                                      *)
(*  cmp   : a, b (ranks 0..5), op, res (what the real Severity operator      *)
(*          returned), also the reflected / not-forms                        *)
(*  faces : vec (rank the library gave each member when the pool was built),  *)
(*          lib (per-pickle rank), maxfind (max rank among the findings, 0   *)
(*          when none), nfind, likely_safe, loader <<[t, raised, info]>>,    *)
(*          cli_rc, json (ranks written to the JSON report, in order)        *)
EXTENDS Verdict, TLC, Json, IOUtils, TLCExt
T == JsonDeserialize(IOEnv.VERIF_TRACE)
VARIABLES tid, done, verdict
vars == <<tid, done, verdict>>
Init == tid \in 1..Len(T) /\ done = FALSE /\ verdict = ""

CmpWhy(R) == IF R.res = OpSem(R.op, R.a, R.b) THEN "ok"
             ELSE "Severity " \o SevName[R.a + 1] \o " " \o R.op \o " " \o SevName[R.b + 1] \o " is " \o ToString(R.res)

FacesWhy(R) ==
  LET n == Len(R.lib) IN
  IF Len(R.vec) # n \/ \E i \in 1..n : R.lib[i] # R.vec[i] THEN "the library rates the same bytes differently than when the pool was classified"
  ELSE IF \E i \in 1..n : R.lib[i] # R.maxfind[i] THEN "verdict is not the maximum severity among the findings"
  ELSE IF \E i \in 1..n : (R.lib[i] = 0) # (R.nfind[i] = 0) THEN "LIKELY_SAFE but findings reported (or the converse)"
  ELSE IF R.likely_safe # (R.lib[1] = 0) THEN "is_likely_safe disagrees with the library verdict"
  ELSE IF \E j \in DOMAIN R.loader : R.loader[j].raised # (R.lib[1] > R.loader[j].t) THEN "checked loader raises/returns against the verdict"
  ELSE IF \E j \in DOMAIN R.loader : R.loader[j].raised /\ R.loader[j].info # R.lib[1] THEN "unsafe-file error carries another severity"
  ELSE IF R.loader_default_raised # (R.lib[1] > 0) THEN "the checked loader with default arguments disagrees with the verdict (after a closed context / hook cycle)"
  ELSE IF R.opt = "json_bad" THEN (IF (\E i \in 1..n : R.lib[i] # 0) /\ R.cli_rc = 0
                                  THEN "CLI exit status is zero for a flagged file when the report cannot be written" ELSE "ok")
  ELSE IF R.cli_rc # (IF \A i \in 1..n : R.lib[i] = 0 THEN 0 ELSE 1) THEN "CLI exit status disagrees"
  ELSE IF Len(R.json) # n THEN "JSON report does not hold one document per stacked pickle"
  ELSE IF \E i \in 1..n : R.json[i] # R.lib[i] THEN "JSON report severity disagrees"
  ELSE "ok"

Judge == /\ ~done /\ done' = TRUE /\ UNCHANGED tid
         /\ verdict' = IF T[tid].kind = "cmp" THEN CmpWhy(T[tid]) ELSE FacesWhy(T[tid])
Spec == Init /\ [][Judge]_vars
Report == done => PrintT(<<"VERDICT", T[tid].id, ToJson([v |-> verdict])>>)
=============================================================================
