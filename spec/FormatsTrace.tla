----------------------------- MODULE FormatsTrace -----------------------------
(* record kinds (harness/props/c17.py):                                        *)
(*  cell : ms (markers present), junk, formats / formats2 (two calls),         *)
(*         opts_same (the same list with the reporting options switched on),   *)
(*         torch_accepts, same_bytes, same_listing                             *)
(*  poly : outcome ("made" | "none" | "raised"), inputs_same, leftovers <<..>>,*)
(*         expected <<formats the construction combines>>, out_formats <<..>>   *)
EXTENDS FormatsRel, IOUtils, TLCExt
T == JsonDeserialize(IOEnv.VERIF_TRACE)
VARIABLES tid, done, verdict
vars == <<tid, done, verdict>>
Init == tid \in 1..Len(T) /\ done = FALSE /\ verdict = ""
SeqSet(q) == {q[i] : i \in DOMAIN q}
CellWhy(R) ==
  LET present == SeqSet(R.ms)  fs == R.formats
      zipfs == [i \in {j \in DOMAIN fs : fs[j] \in ZipSet} |-> fs[i]] IN
  IF R.formats # R.formats2 THEN "identification is not deterministic"
  ELSE IF ~R.opts_same THEN "the answer depends on a reporting option (print_results / print_properties)"
  ELSE IF ~R.same_bytes THEN "identification modified the file"
  ELSE IF ~R.same_listing THEN "identification left files behind"
  ELSE IF ~Known(fs) THEN "unknown format name reported"
  ELSE IF ~Ordered(fs) THEN "formats are not reported in the documented precedence order"
  ELSE IF R.junk /\ \E i \in DOMAIN fs : fs[i] \in ZipSet THEN "a file that is not a zip at offset 0 is reported as a zip format"
  ELSE IF ~R.junk /\ ~Sound(present, fs) THEN "a reported format lacks one of its documented markers"
  ELSE IF ~R.junk /\ ~Complete(present, fs) THEN "markers present but the documented format is not reported"
  ELSE IF ~MarSound(R.cell.filler = "mar", fs) THEN "model-archive format reported for a file without manifest, model and code members"
  ELSE IF ~R.junk /\ ~MarComplete(R.cell.filler = "mar", fs) THEN "a zip with manifest, model and code members is not reported as a model archive"
  ELSE IF R.torch_accepts /\ ~(\E i \in DOMAIN fs : fs[i] = "PyTorch v1.3") THEN "PyTorch's zip reader accepts the file but PyTorch v1.3 is not reported"
  ELSE "ok"
PolyWhy(R) ==
  IF ~R.inputs_same THEN "polyglot creation modified an input file"
  ELSE IF Len(R.leftovers) > 0 THEN "polyglot creation left files behind: " \o R.leftovers[1]
  ELSE IF R.outcome = "made" /\ ~(SeqSet(R.expected) \subseteq SeqSet(R.out_formats)) THEN "the polyglot is not identified as each combined format"
  ELSE "ok"
\* recursive property discovery (looks inside archives): read-only, deterministic, nothing left behind - anywhere
RecurWhy(R) ==
  IF ~R.deterministic THEN "recursive property discovery is not deterministic"
  ELSE IF ~R.same_bytes THEN "recursive property discovery modified the file"
  ELSE IF ~R.same_listing THEN "recursive property discovery left files behind (outside its temporary directory)"
  ELSE "ok"
Judge == /\ ~done /\ done' = TRUE /\ UNCHANGED tid
         /\ verdict' = IF T[tid].kind = "cell" THEN CellWhy(T[tid]) ELSE IF T[tid].kind = "recur" THEN RecurWhy(T[tid]) ELSE PolyWhy(T[tid])
TSpec == Init /\ [][Judge]_vars
Report == done => PrintT(<<"VERDICT", T[tid].id, ToJson([v |-> verdict])>>)
=============================================================================
