SPECIFICATION Spec
INVARIANT DesignOK
INVARIANT Emit
CHECK_DEADLOCK FALSE
