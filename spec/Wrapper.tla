------------------------------- MODULE Wrapper -------------------------------
EXTENDS WrapperRel, TLC, Json
VARIABLES fs, force
vars == <<fs, force>>
\* format lists of length 0..3 without repetition (identification never repeats a format)
Lists == {<<>>} \cup {<<a>> : a \in Formats} \cup {<<a, b>> : a \in Formats, b \in Formats}
           \cup {<<a, b, c>> : a \in Formats, b \in Formats, c \in Formats}
NoRep(q) == \A x, y \in DOMAIN q : x # y => q[x] # q[y]
Init == fs \in {q \in Lists : NoRep(q)} /\ force \in BOOLEAN
Next == UNCHANGED vars
Spec == Init /\ [][Next]_vars
TableSane == RefusalIsSilent(fs, force) /\ AcceptedMeansSupportedOrForced(fs, force) /\ UnforcedUnsupportedRefused(fs)
Emit == PrintT(<<"CASE", ToJson([fs |-> fs, force |-> force])>>)
=============================================================================
