SPECIFICATION CellSpec
INVARIANT EmitCell
CHECK_DEADLOCK FALSE
