-------------------------- MODULE ImportHookTrace --------------------------
(* record: hist <<op>>, steps <<[op, m (what sys.modules holds afterwards: "absent"|"real"|"stub"),     *)
(*          has_load, has_loads, refuses]>> (the three observations only for "probe" steps)              *)
EXTENDS ImportHookRel, TLC, Json, IOUtils, TLCExt
T == JsonDeserialize(IOEnv.VERIF_TRACE)
VARIABLES tid, l, m, installed, verdict
vars == <<tid, l, m, installed, verdict>>
Init == tid \in 1..Len(T) /\ l = 0 /\ m = "real" /\ installed = FALSE /\ verdict = "running"
StepT ==
  LET R == T[tid]  i == l + 1  st == R.steps[i]  s == Step(st.op, m, installed)
      why == IF st.m # s[1] THEN "sys.modules holds " \o st.m \o " where the model says " \o s[1]
             ELSE IF st.op = "probe" /\ s[1] # "absent" /\
                     (st.has_load # Observe(s[1]).has_load \/ st.has_loads # Observe(s[1]).has_loads \/ st.refuses # Observe(s[1]).refuses)
                  THEN "probe of the " \o s[1] \o " module observes something else than the model"
             ELSE ""
  IN /\ verdict = "running" /\ l < Len(R.steps) /\ l' = i /\ UNCHANGED tid
     /\ m' = s[1] /\ installed' = s[2]
     /\ verdict' = IF why # "" THEN "rejected: " \o why \o " (step " \o ToString(i) \o ", " \o st.op \o ")"
                   ELSE IF i = Len(R.steps) THEN "accepted" ELSE "running"
Spec == Init /\ [][StepT]_vars
Report == verdict # "running" => PrintT(<<"VERDICT", T[tid].id, ToJson([v |-> verdict, n |-> l])>>)
=============================================================================
