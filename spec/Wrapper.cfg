SPECIFICATION Spec
INVARIANT TableSane
INVARIANT Emit
CHECK_DEADLOCK FALSE
