----------------------------- MODULE InjectTrace -----------------------------
(* Validation of what the REAL injection helpers produced (harness/props/c08).*)
(* record: base (spec ops of the base pickle), new (spec ops disassembled     *)
(* from the bytes the helper produced), mode, and for each real unpickler run *)
(* (C loads, C load on a stream, pure-Python when unframed) the sink call log *)
(* and the result, as digests.  TLC decides                                   *)
(*   spec : InjWhy on PickleVM runs of base and new (the real output program) *)
(*   real : exactly one injected call, base calls in order, right result,     *)
(*   sev  : fickling does not rate the rewritten pickle LIKELY_SAFE.          *)
EXTENDS Inject, Json, IOUtils, TLCExt

T == JsonDeserialize(IOEnv.VERIF_TRACE)
VARIABLES tid, done, verdict
vars == <<tid, done, verdict>>
V0 == [spec |-> "", real |-> "", sev |-> "", drift |-> FALSE]
Init == tid \in 1..Len(T) /\ done = FALSE /\ verdict = V0

FnModes == FnModeSet
FnWhy(base, new, mode) == FnWhyOf(base, new, mode)

CountS(q, x) == Cardinality({i \in DOMAIN q : q[i] = x})
RECURSIVE SubS(_, _, _, _)
SubS(a, i, b, j) == IF i > Len(a) THEN TRUE ELSE IF j > Len(b) THEN FALSE
                    ELSE IF a[i] = b[j] THEN SubS(a, i + 1, b, j + 1) ELSE SubS(a, i, b, j + 1)

\* modes that add no call: the marker integer, and a python object built on the stack and discarded (insert_python_obj + POP)
NoCallModes == {"magic_end", "magic_idx", "obj_idx"}
\* modes judged on the real loads only (no transcription in Inject.tla)
RealOnlyModes == {"num_first_keep", "num_append_pop", "obj_idx"}
RealWhy(R, run) ==          \* run = [name, ok, calls, res];  R.bcalls / R.bres from the base, R.inj / R.injres digests
  IF ~run.ok THEN "rewritten pickle fails to load with " \o run.name
  ELSE IF R.mode \notin NoCallModes /\ CountS(run.calls, R.inj) # 1 THEN "injected call ran " \o ToString(CountS(run.calls, R.inj)) \o " times with " \o run.name
  ELSE IF ~SubS(R.bcalls, 1, run.calls, 1) THEN "base effects lost or reordered with " \o run.name
  ELSE IF Len(run.calls) # Len(R.bcalls) + R.added THEN "unexpected extra effects with " \o run.name
  ELSE IF R.keeps /\ run.res # R.bres THEN "result differs from the original object with " \o run.name
  ELSE IF ~R.keeps /\ run.res # R.injres THEN "result is not the injected value with " \o run.name
  ELSE "ok"

FirstBadRun(R) == LET bad == {i \in DOMAIN R.runs : RealWhy(R, R.runs[i]) # "ok"} IN
                  IF bad = {} THEN 0 ELSE CHOOSE i \in bad : \A j \in bad : i <= j

Judge ==
  LET R == T[tid]
      \* callee variants ("std_" prefix: the same helpers told to call a harmless standard-library callable that is on no
      \* deny list) are judged on the verdict clause only - the property says the rewritten pickle is NEVER rated LIKELY_SAFE
      std == R.callee # "sink"
      specWhy == IF std \/ R.refused \/ Run(R.base).st # "stop" \/ R.mode \in RealOnlyModes THEN "ok"   \* (the numeric-argument variants are judged on the real loads only)          \* base outside the typed domain of the VM spec: no spec-level verdict
                 ELSE IF R.mode \in FnModes THEN FnWhy(R.base, R.new, R.mode) ELSE InjWhy(R.base, R.new, R.mode)
      fb == IF std \/ R.refused \/ ~R.base_loads THEN 0 ELSE FirstBadRun(R)
      drift == IF std \/ R.refused \/ R.mode \in RealOnlyModes THEN FALSE
               ELSE IF R.mode \in FnModes THEN R.new # RewriteFn(R.base, R.mode, R.fnk) ELSE R.new # Rewrite(R.base, R.mode)
  IN
  /\ ~done /\ done' = TRUE /\ UNCHANGED tid
  /\ verdict' = [spec |-> specWhy,
                 real |-> IF fb = 0 THEN "ok" ELSE RealWhy(R, R.runs[fb]),
                 sev  |-> IF R.refused \/ R.mode \in NoCallModes \/ R.sev # 0 THEN "ok" ELSE "rated LIKELY_SAFE",
                 drift |-> drift]
Next == Judge
Spec == Init /\ [][Next]_vars
Report == done => PrintT(<<"VERDICT", T[tid].id, ToJson(verdict)>>)
=============================================================================
