----------------------------- MODULE InjectTrace -----------------------------
(* Validation of what the REAL injection helpers produced (harness/props/c08).*)
(* record: base (spec ops of the base pickle), new (spec ops disassembled     *)
(* from the bytes the helper produced), mode, and for each real unpickler run *)
(* (C loads, C load on a stream, pure-Python when unframed) the sink call log *)
(* and the result, as digests.  TLC decides                                   *)
(*   spec : InjWhy on PickleVM runs of base and new (the real output program) *)
(*   real : exactly one injected call, base calls in order, right result,     *)
(*   sev  : fickling does not rate the rewritten pickle LIKELY_SAFE.          *)
EXTENDS Inject, Json, IOUtils, TLCExt

T == JsonDeserialize(IOEnv.VERIF_TRACE)
VARIABLES tid, done, verdict
vars == <<tid, done, verdict>>
V0 == [spec |-> "", real |-> "", sev |-> "", drift |-> FALSE]
Init == tid \in 1..Len(T) /\ done = FALSE /\ verdict = V0

FnModes == {"fn_plain", "fn_args", "fn_compiled"}
EvalG == [k |-> "g", m |-> "builtins", n |-> "eval"]
\* function-call modes: the function object is the value of eval(name); it is applied once to the result
IsFnCall(e, bres) == e.e = "call" /\ e.f.k = "obj" /\ SameVal(e.f.f, EvalG) /\ Len(e.a) >= 1 /\ SameVal(e.a[1], bres)
FnWhy(base, new, mode) ==
  LET b == Run(base)  r == Run(new)
      n == Cardinality({i \in DOMAIN r.ev : IsFnCall(r.ev[i], Result(b))}) IN
  IF r.st # "stop" THEN "rewritten program does not run to STOP"
  ELSE IF new[Len(new)].o # "STOP" \/ Count(new, "STOP") # 1 THEN "not exactly one final STOP"
  ELSE IF n # 1 THEN "function not applied exactly once to the unpickled object"
  ELSE IF ~IsSubseqEv(b.ev, r.ev) THEN "an effect of the base pickle is lost or reordered"
  ELSE IF Len(r.ev) # Len(b.ev) + (IF mode = "fn_compiled" THEN 7 ELSE 5) THEN "unexpected number of added effects"
  ELSE IF Len(r.stack) # 0 THEN "VM stack not empty at STOP"
  ELSE IF ~(Result(r).k = "obj" /\ Result(r).f.k = "obj" /\ SameVal(Result(r).f.f, EvalG)) THEN "result is not the function's value"
  ELSE "ok"

CountS(q, x) == Cardinality({i \in DOMAIN q : q[i] = x})
RECURSIVE SubS(_, _, _, _)
SubS(a, i, b, j) == IF i > Len(a) THEN TRUE ELSE IF j > Len(b) THEN FALSE
                    ELSE IF a[i] = b[j] THEN SubS(a, i + 1, b, j + 1) ELSE SubS(a, i, b, j + 1)

RealWhy(R, run) ==          \* run = [name, ok, calls, res];  R.bcalls / R.bres from the base, R.inj / R.injres digests
  IF ~run.ok THEN "rewritten pickle fails to load with " \o run.name
  ELSE IF R.mode \notin {"magic_end", "magic_idx"} /\ CountS(run.calls, R.inj) # 1 THEN "injected call ran " \o ToString(CountS(run.calls, R.inj)) \o " times with " \o run.name
  ELSE IF ~SubS(R.bcalls, 1, run.calls, 1) THEN "base effects lost or reordered with " \o run.name
  ELSE IF Len(run.calls) # Len(R.bcalls) + R.added THEN "unexpected extra effects with " \o run.name
  ELSE IF R.keeps /\ run.res # R.bres THEN "result differs from the original object with " \o run.name
  ELSE IF ~R.keeps /\ run.res # R.injres THEN "result is not the injected value with " \o run.name
  ELSE "ok"

FirstBadRun(R) == LET bad == {i \in DOMAIN R.runs : RealWhy(R, R.runs[i]) # "ok"} IN
                  IF bad = {} THEN 0 ELSE CHOOSE i \in bad : \A j \in bad : i <= j

Judge ==
  LET R == T[tid]
      specWhy == IF R.refused \/ Run(R.base).st # "stop" \/ R.mode \in {"num_first_keep", "num_append_pop"} THEN "ok"   \* (the numeric-argument variants are judged on the real loads only)          \* base outside the typed domain of the VM spec: no spec-level verdict
                 ELSE IF R.mode \in FnModes THEN FnWhy(R.base, R.new, R.mode) ELSE InjWhy(R.base, R.new, R.mode)
      fb == IF R.refused \/ ~R.base_loads THEN 0 ELSE FirstBadRun(R)
      drift == IF R.refused \/ R.mode \in FnModes \cup {"num_first_keep", "num_append_pop"} THEN FALSE ELSE R.new # Rewrite(R.base, R.mode)
  IN
  /\ ~done /\ done' = TRUE /\ UNCHANGED tid
  /\ verdict' = [spec |-> specWhy,
                 real |-> IF fb = 0 THEN "ok" ELSE RealWhy(R, R.runs[fb]),
                 sev  |-> IF R.refused \/ R.mode \in {"magic_end", "magic_idx"} \/ R.sev # 0 THEN "ok" ELSE "rated LIKELY_SAFE",
                 drift |-> drift]
Next == Judge
Spec == Init /\ [][Next]_vars
Report == done => PrintT(<<"VERDICT", T[tid].id, ToJson(verdict)>>)
=============================================================================
