------------------------------- MODULE FickGen -------------------------------
(* Refinement check  FickVM => PickleVM  under the C09 projection, on every   *)
(* program prefix the reference machine accepts (same generator as PickleGen). *)
EXTENDS FickVM
CONSTANTS MaxLen, MaxDepth, Alphabet
VARIABLES prog, s, f
vars == <<prog, s, f>>
Init == prog = <<>> /\ s = S0 /\ f = F0
Step(op) == LET t == Eff(op, s) IN
            /\ t.st # "err" /\ Len(t.stack) <= MaxDepth
            /\ s' = t /\ f' = FEff(op, f) /\ prog' = Append(prog, op)
Next == s.st = "run" /\ Len(prog) < MaxLen /\ \E op \in Alphabet : Step(op)
Spec == Init /\ [][Next]_vars
\* the design-level statement of C09's first sentence
Refines == f.st \in {"run", "stop"} => FProj(f) = Proj(s)
\* and fickling never stops earlier or later than the machine
StopsTogether == (f.st = "stop") => (s.st = "stop")
=============================================================================
