------------------------------ MODULE TorchZip ------------------------------
(* C16: PyTorch payload insertion changes only the model pickle and keeps    *)
(* the model.  An archive is a sequence of <<name, content>> members; the    *)
(* design model of PyTorchModelWrapper.inject_payload(injection="insertion") *)
(* maps the member ending in "/data.pkl" through the pickle injector and     *)
(* copies every other member; the file system holds the input, the output    *)
(* and nothing else.  Generator of configurations for the replay.            *)
EXTENDS Naturals, Sequences, FiniteSets, TLC, Json

ObjKind == {"module", "state_dict", "nested", "zero_size", "shared_storage", "mixed_dtypes", "sequential", "deep_module", "many_tensors"}
Payload == {"plain", "newline", "nonascii", "quotes",
            "len_chars_lt_bytes", "len_255", "len_256", "len_long"}      \* length boundaries of the text opcodes (characters vs encoded bytes)
VARIABLES kind, payload, overwrite
vars == <<kind, payload, overwrite>>
Init == kind \in ObjKind /\ payload \in Payload /\ overwrite \in BOOLEAN
Spec == Init /\ [][UNCHANGED vars]_vars

\* ---- design: the rewrite as a function on abstract archives
IsPkl(name) == name = "data.pkl"
Rewrite(archive) == [i \in DOMAIN archive |-> IF IsPkl(archive[i][1]) THEN <<archive[i][1], "injected">> ELSE archive[i]]
SampleArchive == <<<<"data.pkl", "orig">>, <<"byteorder", "b">>, <<"data/0", "s0">>, <<"data/1", "">>, <<"version", "v">>>>
Post(inA, outA) == /\ Len(outA) = Len(inA)
                   /\ \A i \in DOMAIN inA : outA[i][1] = inA[i][1]
                   /\ \A i \in DOMAIN inA : ~IsPkl(inA[i][1]) => outA[i] = inA[i]
DesignOK == Post(SampleArchive, Rewrite(SampleArchive))
Emit == PrintT(<<"CASE", ToJson([kind |-> kind, payload |-> payload, overwrite |-> overwrite])>>)
=============================================================================
