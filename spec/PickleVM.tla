----------------------------- MODULE PickleVM -----------------------------
(***************************************************************************)
(* Reference specification of the pickle virtual machine (CPython 3.12     *)
(* `pickle._Unpickler`, protocols 0-5) over ABSTRACT values.               *)
(*                                                                         *)
(* One total transition function  Eff(op, s)  is shared by                 *)
(*   - the program generators (PickleGen*.tla: TLC's BFS = bounded         *)
(*     exhaustive enumeration of typed opcode programs),                   *)
(*   - the trace validator (VMTrace.tla: stepping states, event logs and   *)
(*     results recorded from CPython's unpickler and from fickling are     *)
(*     replayed against Eff), and                                          *)
(*   - the injector / CLI models (Inject.tla: Run(p) folds Eff).           *)
(*                                                                         *)
(* Values      mark | c(onst) | g(lobal) | tup | fs (frozenset) | r(ef)    *)
(* Heap objs   list | dict | set | obj (result of a call) | pers           *)
(* Events      import | call | setstate | persid   (arguments are stored   *)
(*             as canonical snapshots taken WHEN THE EVENT HAPPENS)        *)
(***************************************************************************)
EXTENDS Naturals, Sequences, FiniteSets, TLC

Mark      == [t |-> "mark"]
G(m, n)   == [t |-> "g", m |-> m, n |-> n]
Ref(i)    == [t |-> "r", id |-> i]
Tup(e)    == [t |-> "tup", e |-> e]
FSet(e)   == [t |-> "fs", e |-> e]
\* constant: ty = python type name, v = printable token "ty:repr", h = hash/equality class,
\* s = raw text for ty = "str" (needed by STACK_GLOBAL / NEWOBJ_EX keyword names), "" otherwise
Const(ty, v, h, s) == [t |-> "c", ty |-> ty, v |-> v, h |-> h, s |-> s]

IsMark(x) == x.t = "mark"

S0 == [stack |-> <<>>, memo |-> <<>>, heap |-> <<>>, ev |-> <<>>,
       st |-> "run", why |-> "", res |-> Mark,
       extc |-> {}]          \* extension codes already resolved in this run (the machine caches them: one find_class per code)

Err(s, why) == [s EXCEPT !.st = "err", !.why = why]

BuiltinAliases == {"builtins", "__builtin__", "__builtins__"}
\* the three spellings name one module (fickling emits a bare name for all of them)
NormMod(m) == IF m \in BuiltinAliases THEN "builtins" ELSE m

---------------------------------------------------------------------------
(* stack helpers: flat stack, marks are values.  CPython keeps a metastack; *)
(* flat = metastack[0] ++ [MARK] ++ ... ++ stack.  "frame" = items above    *)
(* the topmost mark.                                                        *)

MarkIdxOf(stk) == LET S == {i \in 1..Len(stk) : IsMark(stk[i])}
                  IN IF S = {} THEN 0 ELSE CHOOSE i \in S : \A j \in S : j <= i

MemoPut(m, k, v) == IF k \in DOMAIN m THEN [m EXCEPT ![k] = v] ELSE m @@ (k :> v)

IsHeap(h, x, kind) == x.t = "r" /\ h[x.id].k = kind
IsStubRef(h, x)    == x.t = "r" /\ h[x.id].k \in {"obj", "pers"}
\* what the reference configuration (inert stand-ins) can call
Callable(h, x)     == x.t = "g" \/ IsStubRef(h, x)

RECURSIVE Hashable(_, _)
Hashable(h, x) ==
  CASE x.t = "c"   -> x.ty # "bytearray"
    [] x.t = "g"   -> TRUE
    [] x.t = "fs"  -> TRUE
    [] x.t = "tup" -> \A i \in DOMAIN x.e : Hashable(h, x.e[i])
    [] x.t = "r"   -> h[x.id].k \in {"obj", "pers"}
    [] OTHER       -> FALSE

\* Python equality of hashable values (1 == 1.0 == True is carried by the h field)
RECURSIVE KeyEq(_, _)
KeyEq(x, y) ==
  /\ x.t = y.t
  /\ CASE x.t = "c"   -> x.h = y.h
       [] x.t = "g"   -> x.m = y.m /\ x.n = y.n
       [] x.t = "r"   -> x.id = y.id
       [] x.t = "tup" -> /\ Len(x.e) = Len(y.e)
                         /\ \A i \in DOMAIN x.e : KeyEq(x.e[i], y.e[i])
       [] x.t = "fs"  -> /\ \A i \in DOMAIN x.e : \E j \in DOMAIN y.e : KeyEq(x.e[i], y.e[j])
                         /\ \A j \in DOMAIN y.e : \E i \in DOMAIN x.e : KeyEq(x.e[i], y.e[j])
       [] OTHER       -> FALSE

\* dict as a sequence of <<key, value>> in insertion order; an existing key keeps its position
RECURSIVE DictPutAll(_, _)
DictPut(d, k, v) ==
  IF \E i \in DOMAIN d : KeyEq(d[i][1], k)
  THEN [i \in DOMAIN d |-> IF KeyEq(d[i][1], k) THEN <<d[i][1], v>> ELSE d[i]]
  ELSE Append(d, <<k, v>>)
DictPutAll(d, items) ==   \* items = <<k1, v1, k2, v2, ...>>
  IF Len(items) < 2 THEN d
  ELSE DictPutAll(DictPut(d, items[1], items[2]), SubSeq(items, 3, Len(items)))

RECURSIVE SetAddAll(_, _)
SetAdd(e, x) == IF \E i \in DOMAIN e : KeyEq(e[i], x) THEN e ELSE Append(e, x)
SetAddAll(e, items) == IF items = <<>> THEN e ELSE SetAddAll(SetAdd(e, Head(items)), Tail(items))

EvenIdx(items) == {i \in DOMAIN items : i % 2 = 1}   \* positions of keys in k,v,k,v...

---------------------------------------------------------------------------
(* canonical terms (what both recorders write as JSON)                     *)

PosIn(path, id) == CHOOSE i \in DOMAIN path : path[i] = id

RECURSIVE CanonP(_, _, _)
CanonP(x, h, path) ==
  CASE x.t = "c"    -> [k |-> "c", v |-> x.v]
    [] x.t = "g"    -> [k |-> "g", m |-> NormMod(x.m), n |-> x.n]
    [] x.t = "tup"  -> [k |-> "tuple", e |-> [i \in DOMAIN x.e |-> CanonP(x.e[i], h, path)]]
    [] x.t = "fs"   -> [k |-> "frozenset", e |-> [i \in DOMAIN x.e |-> CanonP(x.e[i], h, path)]]
    [] x.t = "mark" -> [k |-> "mark"]
    [] x.t = "r"    ->
         IF \E i \in DOMAIN path : path[i] = x.id
         THEN [k |-> "cycle", up |-> Len(path) - PosIn(path, x.id) + 1]
         ELSE LET o == h[x.id]  p == Append(path, x.id) IN
           CASE o.k = "list" -> [k |-> "list", e |-> [i \in DOMAIN o.e |-> CanonP(o.e[i], h, p)]]
             [] o.k = "set"  -> [k |-> "set",  e |-> [i \in DOMAIN o.e |-> CanonP(o.e[i], h, p)]]
             [] o.k = "dict" -> [k |-> "dict", e |-> [i \in DOMAIN o.e |->
                                     <<CanonP(o.e[i][1], h, p), CanonP(o.e[i][2], h, p)>>]]
             [] o.k = "obj"  -> [k |-> "obj", f |-> CanonP(o.f, h, p),
                                 a  |-> [i \in DOMAIN o.a  |-> CanonP(o.a[i], h, p)],
                                 kw |-> [i \in DOMAIN o.kw |-> <<o.kw[i][1], CanonP(o.kw[i][2], h, p)>>],
                                 s  |-> [i \in DOMAIN o.s  |-> CanonP(o.s[i], h, p)],
                                 li |-> [i \in DOMAIN o.li |-> CanonP(o.li[i], h, p)],
                                 di |-> [i \in DOMAIN o.di |-> <<CanonP(o.di[i][1], h, p), CanonP(o.di[i][2], h, p)>>]]
             [] o.k = "pers" -> [k |-> "pers", pid |-> CanonP(o.pid, h, p),
                                 s  |-> [i \in DOMAIN o.s  |-> CanonP(o.s[i], h, p)],
                                 li |-> [i \in DOMAIN o.li |-> CanonP(o.li[i], h, p)],
                                 di |-> [i \in DOMAIN o.di |-> <<CanonP(o.di[i][1], h, p), CanonP(o.di[i][2], h, p)>>]]

Canon(x, h) == CanonP(x, h, <<>>)

\* structural equality of canonical terms; sets / frozensets / dicts are unordered.
\* A call of the set / frozenset builtin on a container display (how a decompiler must write a
\* frozenset, Python having no literal for it) denotes that set: NormT rewrites it to the value.
RECURSIVE NormT(_)
NormT(c) ==
  IF c.k = "obj"
  THEN IF /\ c.f.k = "g" /\ c.f.m = "builtins" /\ c.f.n \in {"set", "frozenset"}
          /\ Len(c.a) = 1 /\ Len(c.kw) = 0 /\ Len(c.s) = 0 /\ Len(c.li) = 0 /\ Len(c.di) = 0
       THEN LET x == NormT(c.a[1]) IN                      \* inside out: set(frozenset({...})) is a set
            IF x.k \in {"list", "tuple", "set", "frozenset"}
            THEN [k |-> c.f.n, e |-> x.e] ELSE c
       ELSE c
  ELSE c

RECURSIVE SameVal(_, _)
SameSeq(a, b) == Len(a) = Len(b) /\ \A i \in DOMAIN a : SameVal(a[i], b[i])
SameBag(a, b) == /\ \A i \in DOMAIN a : \E j \in DOMAIN b : SameVal(a[i], b[j])
                 /\ \A j \in DOMAIN b : \E i \in DOMAIN a : SameVal(a[i], b[j])
SamePair(p, q) == SameVal(p[1], q[1]) /\ SameVal(p[2], q[2])
SamePairs(a, b) == Len(a) = Len(b) /\ \A i \in DOMAIN a : SamePair(a[i], b[i])
SameVal(x, y) ==
  LET a == NormT(x)  b == NormT(y) IN
  /\ a.k = b.k
  /\ CASE a.k = "c"     -> a.v = b.v
       [] a.k = "g"     -> a.m = b.m /\ a.n = b.n
       [] a.k = "mark"  -> TRUE
       [] a.k = "cycle" -> a.up = b.up
       [] a.k \in {"tuple", "list"}    -> SameSeq(a.e, b.e)
       [] a.k \in {"set", "frozenset"} -> SameBag(a.e, b.e)
       [] a.k = "dict"  -> /\ Len(a.e) = Len(b.e)
                           /\ \A i \in DOMAIN a.e : \E j \in DOMAIN b.e : SamePair(a.e[i], b.e[j])
                           /\ \A j \in DOMAIN b.e : \E i \in DOMAIN a.e : SamePair(a.e[i], b.e[j])
       [] a.k = "obj"   -> /\ SameVal(a.f, b.f) /\ SameSeq(a.a, b.a) /\ SameSeq(a.s, b.s)
                           /\ Len(a.kw) = Len(b.kw)
                           /\ \A i \in DOMAIN a.kw : a.kw[i][1] = b.kw[i][1] /\ SameVal(a.kw[i][2], b.kw[i][2])
                           /\ SameSeq(a.li, b.li) /\ SamePairs(a.di, b.di)
       [] a.k = "pers"  -> SameVal(a.pid, b.pid) /\ SameSeq(a.s, b.s) /\ SameSeq(a.li, b.li) /\ SamePairs(a.di, b.di)
       [] OTHER         -> FALSE

RECURSIVE HasCycle(_)
HasCycle(c) ==
  CASE c.k = "cycle" -> TRUE
    [] c.k \in {"tuple", "list", "set", "frozenset"} -> \E i \in DOMAIN c.e : HasCycle(c.e[i])
    [] c.k = "dict" -> \E i \in DOMAIN c.e : (HasCycle(c.e[i][1]) \/ HasCycle(c.e[i][2]))
    [] c.k = "obj"  -> \/ HasCycle(c.f)
                       \/ (\E i \in DOMAIN c.a : HasCycle(c.a[i]))
                       \/ (\E i \in DOMAIN c.kw : HasCycle(c.kw[i][2]))
                       \/ (\E i \in DOMAIN c.s : HasCycle(c.s[i]))
                       \/ (\E i \in DOMAIN c.li : HasCycle(c.li[i]))
                       \/ (\E i \in DOMAIN c.di : (HasCycle(c.di[i][1]) \/ HasCycle(c.di[i][2])))
    [] c.k = "pers" -> \/ HasCycle(c.pid) \/ (\E i \in DOMAIN c.s : HasCycle(c.s[i]))
                       \/ (\E i \in DOMAIN c.li : HasCycle(c.li[i]))
                       \/ (\E i \in DOMAIN c.di : (HasCycle(c.di[i][1]) \/ HasCycle(c.di[i][2])))
    [] OTHER -> FALSE

---------------------------------------------------------------------------
(* events                                                                  *)
EvImport(m, n)        == [e |-> "import", m |-> NormMod(m), n |-> n]
\* nw: the callee is reached through X.__new__(X, ...) (NEWOBJ / NEWOBJ_EX) rather than called as X(...) (REDUCE, OBJ, INST:
\* for a callee that is not a class the unpickler calls it, and f.__new__(f) would NOT be a call of f)
EvCallN(f, a, kw, h, nw) == [e |-> "call", f |-> Canon(f, h),
                          a  |-> [i \in DOMAIN a  |-> Canon(a[i], h)],
                          kw |-> [i \in DOMAIN kw |-> <<kw[i][1], Canon(kw[i][2], h)>>], nw |-> nw]
EvCall(f, a, kw, h)   == EvCallN(f, a, kw, h, FALSE)
EvSetState(o, st, h)  == [e |-> "setstate", o |-> Canon(o, h), s |-> Canon(st, h)]
EvPersId(pid, h)      == [e |-> "persid", pid |-> Canon(pid, h)]
\* a stand-in object used as a container: obj.append / obj.extend, obj[k] = v
EvAppend(o, items, h) == [e |-> "append", o |-> Canon(o, h), a |-> [i \in DOMAIN items |-> Canon(items[i], h)]]
EvSetItem(o, k, v, h) == [e |-> "setitem", o |-> Canon(o, h), k |-> Canon(k, h), v |-> Canon(v, h)]

SameCall(x, y) == /\ SameVal(x.f, y.f) /\ SameSeq(x.a, y.a) /\ Len(x.kw) = Len(y.kw)
                  /\ \A i \in DOMAIN x.kw : x.kw[i][1] = y.kw[i][1] /\ SameVal(x.kw[i][2], y.kw[i][2])
SameEv(x, y) ==
  /\ x.e = y.e
  /\ CASE x.e = "import"   -> x.m = y.m /\ x.n = y.n
       [] x.e = "call"     -> SameCall(x, y) /\ x.nw = y.nw
       [] x.e = "setstate" -> SameVal(x.o, y.o) /\ SameVal(x.s, y.s)
       [] x.e = "persid"   -> SameVal(x.pid, y.pid)
       [] x.e = "append"   -> SameVal(x.o, y.o) /\ SameSeq(x.a, y.a)
       [] x.e = "setitem"  -> SameVal(x.o, y.o) /\ SameVal(x.k, y.k) /\ SameVal(x.v, y.v)
       [] OTHER            -> FALSE

---------------------------------------------------------------------------
(* the transition function                                                 *)

\* keyword dictionary of NEWOBJ_EX: a dict whose keys are exactly `str` constants
KwOK(h, x) == IsHeap(h, x, "dict") /\ \A i \in DOMAIN h[x.id].e : LET k == h[x.id].e[i][1] IN k.t = "c" /\ k.ty = "str"
KwOf(h, x) == [i \in DOMAIN h[x.id].e |-> <<h[x.id].e[i][1].s, h[x.id].e[i][2]>>]

Unsupported == {"NEXT_BUFFER", "READONLY_BUFFER"}
\* the extension registry of the process (copyreg.add_extension): EXT1 / EXT2 / EXT4 carry a code that the machine resolves
\* to a global through find_class - an import like any other.  The harness registers exactly this entry.
ExtRegistry == [c \in {64} |-> <<"verif_sink", "ext_target">>]

\* SETITEMS on a stand-in object: obj[k] = v for each pair in order, each observing the pairs set before it
RECURSIVE SetItemsOnStub(_, _, _, _)
SetItemsOnStub(s, o, items, below) ==
  IF Len(items) < 2 THEN [s EXCEPT !.stack = below]
  ELSE SetItemsOnStub([s EXCEPT !.ev = Append(@, EvSetItem(o, items[1], items[2], s.heap)),
                                !.heap[o.id].di = Append(@, <<items[1], items[2]>>)],
                      o, SubSeq(items, 3, Len(items)), below)

Eff(op, s) ==
  LET stk   == s.stack
      n     == Len(stk)
      mi    == MarkIdxOf(stk)
      fr    == n - mi                        \* size of the current frame
      above == SubSeq(stk, mi + 1, n)
      below == SubSeq(stk, 1, mi - 1)
      hp    == s.heap
      nid   == Len(hp) + 1
      push(x)        == [s EXCEPT !.stack = Append(stk, x)]
      alloc(o, base) == [s EXCEPT !.heap = Append(hp, o), !.stack = Append(base, Ref(nid))]
      callN(f, a, kw, base, pre, nw) ==
          [s EXCEPT !.ev    = pre \o <<EvCallN(f, a, kw, hp, nw)>>,
                    !.heap  = Append(hp, [k |-> "obj", f |-> f, a |-> a, kw |-> kw, s |-> <<>>, li |-> <<>>, di |-> <<>>]),
                    !.stack = Append(base, Ref(nid))]
      call(f, a, kw, base, pre) == callN(f, a, kw, base, pre, FALSE)
      top  == stk[n]
      top2 == stk[n - 1]
      top3 == stk[n - 2]
  IN
  IF s.st # "run" THEN s ELSE
  CASE op.o = "CONST" -> push(Const(op.ty, op.v, op.h, op.s))
    [] op.o = "MARK"  -> push(Mark)
    [] op.o \in {"PROTO"} -> IF op.a <= 5 THEN s ELSE Err(s, "vm")
    [] op.o = "FRAME" -> s
    [] op.o = "POP"   -> IF fr >= 1 THEN [s EXCEPT !.stack = SubSeq(stk, 1, n - 1)]
                         ELSE IF mi > 0 THEN [s EXCEPT !.stack = below]      \* load_pop -> pop_mark
                         ELSE Err(s, "vm")
    [] op.o = "POP_MARK" -> IF mi > 0 THEN [s EXCEPT !.stack = below] ELSE Err(s, "vm")
    [] op.o = "DUP"   -> IF fr >= 1 THEN push(top) ELSE Err(s, "vm")
    [] op.o = "PUT"   -> IF fr >= 1 THEN [s EXCEPT !.memo = MemoPut(@, op.a, top)] ELSE Err(s, "vm")
    [] op.o = "MEMOIZE" -> IF fr >= 1 THEN [s EXCEPT !.memo = MemoPut(@, Cardinality(DOMAIN s.memo), top)]
                           ELSE Err(s, "vm")
    [] op.o = "GET"   -> IF op.a \in DOMAIN s.memo THEN push(s.memo[op.a]) ELSE Err(s, "vm")
    [] op.o = "GLOBAL" -> [s EXCEPT !.stack = Append(stk, G(op.m, op.n)), !.ev = Append(@, EvImport(op.m, op.n))]
    [] op.o = "STACK_GLOBAL" ->
         IF fr < 2 THEN Err(s, "vm")
         ELSE IF ~(top.t = "c" /\ top.ty = "str" /\ top2.t = "c" /\ top2.ty = "str") THEN Err(s, "vm")
         ELSE [s EXCEPT !.stack = Append(SubSeq(stk, 1, n - 2), G(top2.s, top.s)),
                        !.ev = Append(@, EvImport(top2.s, top.s))]
    [] op.o = "EMPTY_TUPLE" -> push(Tup(<<>>))
    [] op.o = "TUPLE1" -> IF fr >= 1 THEN [s EXCEPT !.stack = Append(SubSeq(stk, 1, n - 1), Tup(<<top>>))] ELSE Err(s, "vm")
    [] op.o = "TUPLE2" -> IF fr >= 2 THEN [s EXCEPT !.stack = Append(SubSeq(stk, 1, n - 2), Tup(<<top2, top>>))] ELSE Err(s, "vm")
    [] op.o = "TUPLE3" -> IF fr >= 3 THEN [s EXCEPT !.stack = Append(SubSeq(stk, 1, n - 3), Tup(<<top3, top2, top>>))] ELSE Err(s, "vm")
    [] op.o = "TUPLE" -> IF mi > 0 THEN [s EXCEPT !.stack = Append(below, Tup(above))] ELSE Err(s, "vm")
    [] op.o = "EMPTY_LIST" -> alloc([k |-> "list", e |-> <<>>], stk)
    [] op.o = "EMPTY_DICT" -> alloc([k |-> "dict", e |-> <<>>], stk)
    [] op.o = "EMPTY_SET"  -> alloc([k |-> "set",  e |-> <<>>], stk)
    [] op.o = "LIST"  -> IF mi > 0 THEN alloc([k |-> "list", e |-> above], below) ELSE Err(s, "vm")
    [] op.o = "DICT"  -> IF mi = 0 \/ fr % 2 = 1 THEN Err(s, "vm")
                         ELSE IF \E i \in EvenIdx(above) : ~Hashable(hp, above[i]) THEN Err(s, "vm")
                         ELSE alloc([k |-> "dict", e |-> DictPutAll(<<>>, above)], below)
    [] op.o = "FROZENSET" -> IF mi = 0 THEN Err(s, "vm")
                             ELSE IF \E i \in DOMAIN above : ~Hashable(hp, above[i]) THEN Err(s, "vm")
                             ELSE [s EXCEPT !.stack = Append(below, FSet(SetAddAll(<<>>, above)))]
    [] op.o = "APPEND" -> IF fr < 2 THEN Err(s, "vm")
                          ELSE IF IsStubRef(hp, top2)
                               THEN [s EXCEPT !.ev = Append(@, EvAppend(top2, <<top>>, hp)),
                                              !.heap[top2.id].li = Append(@, top), !.stack = SubSeq(stk, 1, n - 1)]
                          ELSE IF ~IsHeap(hp, top2, "list") THEN Err(s, "typing")
                          ELSE [s EXCEPT !.heap[top2.id].e = Append(@, top), !.stack = SubSeq(stk, 1, n - 1)]
    [] op.o = "APPENDS" -> IF mi < 2 \/ IsMark(stk[mi - 1]) THEN Err(s, "vm")
                           ELSE IF IsStubRef(hp, stk[mi - 1])
                                THEN [s EXCEPT !.ev = Append(@, EvAppend(stk[mi - 1], above, hp)),
                                               !.heap[stk[mi - 1].id].li = @ \o above, !.stack = below]
                           ELSE IF ~IsHeap(hp, stk[mi - 1], "list") THEN Err(s, "typing")
                           ELSE [s EXCEPT !.heap[stk[mi - 1].id].e = @ \o above, !.stack = below]
    [] op.o = "SETITEM" -> IF fr < 3 THEN Err(s, "vm")
                           ELSE IF IsStubRef(hp, top3) /\ ~Hashable(hp, top2) THEN Err(s, "typing")   \* dict-like items have hashable keys
                           ELSE IF IsStubRef(hp, top3)
                                THEN [s EXCEPT !.ev = Append(@, EvSetItem(top3, top2, top, hp)),
                                               !.heap[top3.id].di = Append(@, <<top2, top>>), !.stack = SubSeq(stk, 1, n - 2)]
                           ELSE IF ~IsHeap(hp, top3, "dict") THEN Err(s, "typing")
                           ELSE IF ~Hashable(hp, top2) THEN Err(s, "vm")
                           ELSE [s EXCEPT !.heap[top3.id].e = DictPut(@, top2, top), !.stack = SubSeq(stk, 1, n - 2)]
    [] op.o = "SETITEMS" -> IF mi < 2 \/ IsMark(stk[mi - 1]) THEN Err(s, "vm")
                            ELSE IF IsStubRef(hp, stk[mi - 1]) /\ fr % 2 = 0 /\ (\E i \in EvenIdx(above) : ~Hashable(hp, above[i]))
                                 THEN Err(s, "typing")
                            ELSE IF IsStubRef(hp, stk[mi - 1]) /\ fr % 2 = 0
                                 THEN SetItemsOnStub(s, stk[mi - 1], above, below)
                            ELSE IF ~IsHeap(hp, stk[mi - 1], "dict") THEN Err(s, "typing")
                            ELSE IF fr % 2 = 1 THEN Err(s, "vm")
                            ELSE IF \E i \in EvenIdx(above) : ~Hashable(hp, above[i]) THEN Err(s, "vm")
                            ELSE [s EXCEPT !.heap[stk[mi - 1].id].e = DictPutAll(@, above), !.stack = below]
    [] op.o = "ADDITEMS" -> IF mi < 2 \/ IsMark(stk[mi - 1]) THEN Err(s, "vm")
                            ELSE IF ~IsHeap(hp, stk[mi - 1], "set") THEN Err(s, "typing")
                            ELSE IF \E i \in DOMAIN above : ~Hashable(hp, above[i]) THEN Err(s, "vm")
                            ELSE [s EXCEPT !.heap[stk[mi - 1].id].e = SetAddAll(@, above), !.stack = below]
    [] op.o = "REDUCE" -> IF fr < 2 THEN Err(s, "vm")
                          ELSE IF ~Callable(hp, top2) \/ top.t # "tup" THEN Err(s, "typing")
                          ELSE call(top2, top.e, <<>>, SubSeq(stk, 1, n - 2), s.ev)
    [] op.o = "NEWOBJ" -> IF fr < 2 THEN Err(s, "vm")
                          ELSE IF ~Callable(hp, top2) \/ top.t # "tup" THEN Err(s, "typing")
                          ELSE callN(top2, top.e, <<>>, SubSeq(stk, 1, n - 2), s.ev, TRUE)
    [] op.o = "NEWOBJ_EX" -> IF fr < 3 THEN Err(s, "vm")
                             ELSE IF ~Callable(hp, top3) \/ top2.t # "tup" \/ ~KwOK(hp, top) THEN Err(s, "typing")
                             ELSE callN(top3, top2.e, KwOf(hp, top), SubSeq(stk, 1, n - 3), s.ev, TRUE)
    [] op.o = "OBJ"   -> IF mi = 0 \/ fr < 1 THEN Err(s, "vm")
                         ELSE IF ~Callable(hp, above[1]) THEN Err(s, "typing")
                         ELSE call(above[1], Tail(above), <<>>, below, s.ev)
    [] op.o = "INST"  -> IF mi = 0 THEN Err(s, "vm")
                         ELSE call(G(op.m, op.n), above, <<>>, below, Append(s.ev, EvImport(op.m, op.n)))
    [] op.o = "BUILD" -> IF fr < 2 THEN Err(s, "vm")
                         ELSE IF ~IsStubRef(hp, top2) THEN Err(s, "typing")
                         ELSE [s EXCEPT !.ev = Append(@, EvSetState(top2, top, hp)),
                                        !.heap[top2.id].s = Append(@, top),
                                        !.stack = SubSeq(stk, 1, n - 1)]
    [] op.o = "BINPERSID" -> IF fr < 1 THEN Err(s, "vm")
                             ELSE [s EXCEPT !.ev = Append(@, EvPersId(top, hp)),
                                            !.heap = Append(hp, [k |-> "pers", pid |-> top, s |-> <<>>, li |-> <<>>, di |-> <<>>]),
                                            !.stack = Append(SubSeq(stk, 1, n - 1), Ref(nid))]
    [] op.o = "PERSID" -> LET pid == Const("str", op.v, op.h, op.s) IN
                          [s EXCEPT !.ev = Append(@, EvPersId(pid, hp)),
                                    !.heap = Append(hp, [k |-> "pers", pid |-> pid, s |-> <<>>, li |-> <<>>, di |-> <<>>]),
                                    !.stack = Append(stk, Ref(nid))]
    [] op.o = "STOP"  -> IF fr >= 1 THEN [s EXCEPT !.st = "stop", !.res = top, !.stack = SubSeq(stk, 1, n - 1)]
                         ELSE Err(s, "vm")
    [] op.o = "EXT" -> IF op.a \notin DOMAIN ExtRegistry THEN Err(s, "vm")
                       ELSE LET g == ExtRegistry[op.a] IN
                            [s EXCEPT !.ev = IF op.a \in s.extc THEN @ ELSE Append(@, EvImport(g[1], g[2])),
                                      !.extc = @ \cup {op.a}, !.stack = Append(stk, G(g[1], g[2]))]
    [] op.o \in Unsupported -> Err(s, "unsupported")
    [] OTHER -> Err(s, "unknown-opcode")

RECURSIVE RunFrom(_, _, _)
RunFrom(p, i, s) == IF i > Len(p) \/ s.st # "run" THEN s ELSE RunFrom(p, i + 1, Eff(p[i], s))
Run(p) == RunFrom(p, 1, S0)

---------------------------------------------------------------------------
(* derived views used by the properties                                    *)

\* C09: what stepping must mirror
Proj(s) == [depth |-> Len(s.stack),
            marks |-> {i \in 1..Len(s.stack) : IsMark(s.stack[i])},
            keys  |-> DOMAIN s.memo]

Result(s)  == Canon(s.res, s.heap)
Acyclic(s) == ~HasCycle(Result(s))

\* C03: evA covers evB
IsBuiltinImport(e) == e.e = "import" /\ e.m = "builtins"
\* "every MODULE import the VM would trigger is present": an import event is covered by an import of the same
\* module (which attribute of it is then reached - possibly by a dotted path - is compared where it matters:
\* as the callee of a call, or as part of the value)
ImportCovered(evA, x) == IsBuiltinImport(x) \/ \E j \in DOMAIN evA : evA[j].e = "import" /\ evA[j].m = x.m
CountEv(evs, x)    == Cardinality({j \in DOMAIN evs : SameEv(evs[j], x)})
\* calls: a decompiled X(...) stands for both what the machine calls and what it allocates through X.__new__ (the program
\* over-approximates), but a decompiled X.__new__(X, ...) only stands for an allocation - it does not call X
CountCall(evs, x, nw) == Cardinality({j \in DOMAIN evs : evs[j].e = "call" /\ SameCall(evs[j], x) /\ evs[j].nw = nw})
CallCovered(evA, evB, x) ==
  /\ CountCall(evA, x, FALSE) >= CountCall(evB, x, FALSE)
  /\ CountCall(evA, x, FALSE) + CountCall(evA, x, TRUE) >= CountCall(evB, x, FALSE) + CountCall(evB, x, TRUE)
EvCovered(evA, evB, x) == IF x.e = "import" THEN ImportCovered(evA, x)
                          ELSE IF x.e = "call" THEN CallCovered(evA, evB, x)
                          ELSE CountEv(evA, x) >= CountEv(evB, x)
Covers(evA, evB) == \A i \in DOMAIN evB : EvCovered(evA, evB, evB[i])
\* first uncovered event (0 = none)
FirstUncovered(evA, evB) ==
  LET bad == {i \in DOMAIN evB : ~EvCovered(evA, evB, evB[i])}
  IN IF bad = {} THEN 0 ELSE CHOOSE i \in bad : \A j \in bad : i <= j

=============================================================================
