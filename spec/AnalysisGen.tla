---------------------------- MODULE AnalysisGen ----------------------------
EXTENDS Analysis
CONSTANTS MaxLen, MaxDepth, Alphabet
VARIABLES prog, s
vars == <<prog, s>>
Init == prog = <<>> /\ s = S0
Step(op) == LET t == Eff(op, s) IN t.st # "err" /\ Len(t.stack) <= MaxDepth /\ s' = t /\ prog' = Append(prog, op)
Next == s.st = "run" /\ Len(prog) < MaxLen /\ \E op \in Alphabet : Step(op)
Spec == Init /\ [][Next]_vars
\* the floor is a function of the event log and the model verdict dominates it after every prefix
FloorDominated == DesignFloorOK(s.ev)
=============================================================================
