CONSTANT MaxLen = 5
SPECIFICATION Spec
INVARIANT NeverRealAfterHook
INVARIANT Sane
INVARIANT Emit
CHECK_DEADLOCK FALSE
