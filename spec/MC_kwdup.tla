---- MODULE MC_kwdup ----
(* NEWOBJ_EX whose keyword dictionary is built by DICT from a batch that may name the same keyword twice *)
EXTENDS PickleGen, Ops
Alpha == { O("MARK"), O("STOP"), G1, K2, O("EMPTY_TUPLE"), O("DICT"), O("NEWOBJ_EX") }
====
