------------------------------- MODULE Inert -------------------------------
(* C01: analysis is inert.  The specification lists, per analysis entry     *)
(* point, the ONLY externally visible events an analysis behaviour may      *)
(* contain; every other event class has no action, so a recorded trace      *)
(* containing one is rejected.  (Thin model: an alphabet of permitted       *)
(* effects; the discriminating power is in the audit-hook recorder.)        *)
EXTENDS Naturals, Sequences, FiniteSets, TLC, Json, IOUtils, TLCExt

Entry == {"parse", "stacked", "decompile", "unparse", "trace", "check", "check_json", "likely_safe",
          "cli_decompile", "cli_trace", "cli_check",
          \* the safety check with a caller-supplied analyzer: every analysis on its own, and the ML recipe
          \* (allow-list analysis first), so that no analysis hides behind what another one reported before it
          "check_each", "check_ml"}
\* event classes produced by the recorder (harness/c01child.py)
Permitted(e) ==
  {"own_import",          \* lazy import of one of fickling's own dependencies (never a module named by the input)
   "open_read_lib",       \* library data under the interpreter prefix / site-packages / the repository
   "compile_ast_only"}    \* `compile` to an AST, nothing executed
  \cup (IF e \in {"likely_safe", "cli_decompile", "cli_trace", "cli_check"} THEN {"open_read_input"} ELSE {})
  \cup (IF e \in {"check_json", "cli_check"} THEN {"open_append_report"} ELSE {})
Forbidden == {"find_class", "import_named", "probe_named", "sink", "exec", "spawn", "socket", "ctypes",
              "open_write_other", "open_read_other", "fs_delta", "modules_delta_named", "marshal_loads"}

T == JsonDeserialize(IOEnv.VERIF_TRACE)
VARIABLES tid, l, verdict
vars == <<tid, l, verdict>>
Init == tid \in 1..Len(T) /\ l = 0 /\ verdict = "running"

\* one action per permitted event class; End accepts both outcomes (returned / raised)
Event ==
  LET R == T[tid]  i == l + 1 IN
  /\ verdict = "running" /\ l < Len(R.events) /\ l' = i /\ UNCHANGED tid
  /\ verdict' = IF R.events[i].c \in Permitted(R.entry)
                THEN (IF i = Len(R.events) THEN "accepted" ELSE "running")
                ELSE "rejected: " \o R.events[i].c \o " during " \o R.entry \o " (" \o R.events[i].d \o ")"
End == verdict = "running" /\ Len(T[tid].events) = 0 /\ verdict' = "accepted" /\ UNCHANGED <<tid, l>>
Next == Event \/ End
Spec == Init /\ [][Next]_vars
NothingRuns == verdict = "accepted" => \A i \in DOMAIN T[tid].events : T[tid].events[i].c \notin Forbidden
Report == verdict # "running" => PrintT(<<"VERDICT", T[tid].id, ToJson([v |-> verdict, n |-> l])>>)
=============================================================================
