----------------------------- MODULE TotalTrace -----------------------------
(* record: id, dec_ok, chk (the same fields as in VMTrace records) for pickles whose GLOBAL names are outside the typed *)
(* domain of the VM specification (non-ASCII, lone surrogates, quotes, blanks, newlines, empty): C19 does not need the  *)
(* reference machine, only what the check and the loader said                                                            *)
EXTENDS TotalRel, TLC, Json, IOUtils, TLCExt, Sequences, Naturals
T == JsonDeserialize(IOEnv.VERIF_TRACE)
VARIABLES tid, done, verdict
vars == <<tid, done, verdict>>
Init == tid \in 1..Len(T) /\ done = FALSE /\ verdict = ""
\* kind "returns": one analysis (or the unused-variable query it is built on) asked on its own about a pickle whose program is
\* built (self-referential containers as call arguments): it comes back - with a verdict or by raising - within the limit
Why(R) == IF R.kind = "returns" THEN (IF R.returned THEN "ok" ELSE "does-not-return: " \o R.what)
          ELSE C19Why(R.dec_ok, R.chk)
Judge == /\ ~done /\ done' = TRUE /\ UNCHANGED tid /\ verdict' = Why(T[tid])
Spec == Init /\ [][Judge]_vars
Report == done => PrintT(<<"VERDICT", T[tid].id, ToJson([v |-> verdict])>>)
=============================================================================
