----------------------------- MODULE TotalTrace -----------------------------
(* record: id, dec_ok, chk (the same fields as in VMTrace records) for pickles whose GLOBAL names are outside the typed *)
(* domain of the VM specification (non-ASCII, lone surrogates, quotes, blanks, newlines, empty): C19 does not need the  *)
(* reference machine, only what the check and the loader said                                                            *)
EXTENDS TotalRel, TLC, Json, IOUtils, TLCExt, Sequences, Naturals
T == JsonDeserialize(IOEnv.VERIF_TRACE)
VARIABLES tid, done, verdict
vars == <<tid, done, verdict>>
Init == tid \in 1..Len(T) /\ done = FALSE /\ verdict = ""
Judge == /\ ~done /\ done' = TRUE /\ UNCHANGED tid /\ verdict' = C19Why(T[tid].dec_ok, T[tid].chk)
Spec == Init /\ [][Judge]_vars
Report == done => PrintT(<<"VERDICT", T[tid].id, ToJson([v |-> verdict])>>)
=============================================================================
