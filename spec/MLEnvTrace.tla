----------------------------- MODULE MLEnvTrace -----------------------------
(* Validation of recorded allowlist histories (harness/props/c11.py).        *)
(* step: [op, env |-> <<outcome per global>> ("ok" | "refused" | "na"),      *)
(*        plain |-> outcomes through a fresh unpickler without additions,    *)
(*        inst  |-> outcomes through the unpickler constructed in this step  *)
(*                  ("na" when the step constructs none),                    *)
(*        base_same |-> the built-in table equals its initial deep snapshot] *)
(* Globals are listed in the order of GlobalSeq.                             *)
EXTENDS Naturals, Sequences, FiniteSets, TLC, Json, IOUtils, TLCExt

T == JsonDeserialize(IOEnv.VERIF_TRACE)
GlobalSeq == <<"collections.OrderedDict", "collections.Counter", "collections.deque",
               "fractions.Fraction", "decimal.Decimal", "verif_sink.hit", "fractions.Decimal">>
Base0 == {"collections.OrderedDict"}
AddOf(op) == CASE op \in {"act1", "con1"} -> {"fractions.Fraction"}
               [] op \in {"act2", "con2"} -> {"collections.Counter"}
               [] op \in {"act3", "con3"} -> {"fractions.Fraction", "collections.Counter", "decimal.Decimal"}
               [] OTHER -> {}

VARIABLES tid, l, active, adds, verdict
vars == <<tid, l, active, adds, verdict>>
Init == tid \in 1..Len(T) /\ l = 0 /\ active = FALSE /\ adds = {} /\ verdict = "running"

Want(S, i) == IF GlobalSeq[i] \in S THEN "ok" ELSE "refused"
FirstBad(obs, S) == LET bad == {i \in DOMAIN GlobalSeq : obs[i] # Want(S, i)} IN
                    IF bad = {} THEN 0 ELSE CHOOSE i \in bad : \A j \in bad : i <= j

StepT ==
  LET R == T[tid]  i == l + 1  st == R.steps[i]
      act2 == IF st.op = "deact" THEN FALSE ELSE IF st.op \in {"act0", "act1", "act2", "act3"} THEN TRUE ELSE active
      adds2 == IF st.op = "deact" THEN {} ELSE IF st.op \in {"act0", "act1", "act2", "act3"} THEN AddOf(st.op) ELSE adds
      isCon == st.op \in {"con0", "con1", "con2", "con3"}
      e == IF act2 THEN FirstBad(st.env, Base0 \cup adds2) ELSE 0
      off == IF act2 THEN 0 ELSE FirstBad(st.env, {GlobalSeq[j] : j \in DOMAIN GlobalSeq})   \* deactivated: nothing is refused
      p == IF st.plain_ran THEN FirstBad(st.plain, Base0) ELSE 0
      c == IF isCon THEN FirstBad(st.inst, Base0 \cup AddOf(st.op)) ELSE 0
      why == IF ~st.base_same THEN "the built-in allowlist was altered"
             ELSE IF off # 0 THEN "no environment is active but " \o GlobalSeq[off] \o " is " \o st.env[off] \o " through the pickle module"
             ELSE IF e # 0 THEN "active environment: " \o GlobalSeq[e] \o " " \o st.env[e] \o " but permitted set says " \o Want(Base0 \cup adds2, e)
             ELSE IF p # 0 THEN "unpickler without additions: " \o GlobalSeq[p] \o " " \o st.plain[p]
             ELSE IF c # 0 THEN "constructed unpickler: " \o GlobalSeq[c] \o " " \o st.inst[c]
             ELSE ""
  IN
  /\ verdict = "running" /\ l < Len(R.steps) /\ l' = i /\ UNCHANGED tid
  /\ active' = act2 /\ adds' = adds2
  /\ verdict' = IF why # "" THEN "rejected: " \o why \o " (step " \o ToString(i) \o ", " \o st.op \o ")"
                ELSE IF i = Len(R.steps) THEN "accepted" ELSE "running"
Empty == verdict = "running" /\ Len(T[tid].steps) = 0 /\ verdict' = "accepted" /\ UNCHANGED <<tid, l, active, adds>>
Next == StepT \/ Empty
Spec == Init /\ [][Next]_vars
Report == verdict # "running" => PrintT(<<"VERDICT", T[tid].id, ToJson([v |-> verdict, n |-> l])>>)
=============================================================================
