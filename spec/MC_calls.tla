---- MODULE MC_calls ----
EXTENDS PickleGen, Ops
Alpha == { O("MARK"), O("STOP"), G1, O("STACK_GLOBAL"), SM1, SN1, I1, K1, O("EMPTY_TUPLE"), O("TUPLE"), O("TUPLE1"), O("EMPTY_DICT"), O("REDUCE"), O("OBJ"), O("NEWOBJ"), O("NEWOBJ_EX"), O("BUILD"), O("BINPERSID"), PersidOp, O("POP"), O("POP_MARK"), O("DUP"), OA("PUT", 0), OA("PUT", 1), OA("GET", 0), OA("GET", 1), O("MEMOIZE") }
====
