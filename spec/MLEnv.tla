------------------------------- MODULE MLEnv -------------------------------
(* C11: user allowlist additions do not outlive or leak beyond their        *)
(* activation.  Design model of fickling/ml.py FicklingMLUnpickler.__init__ *)
(* + fickling/hook.py activate/remove (with the aliasing that matters: the  *)
(* built-in table maps a module to ONE inner dict that a shallow copy       *)
(* shares), the property on it, and the generator of histories.             *)
EXTENDS Naturals, Sequences, FiniteSets, TLC, Json

CONSTANTS MaxLen,
          ShallowCopy      \* FALSE: as coded after the fix (inner dicts copied); TRUE: the pinned code

\* vocabulary of probed globals <<module, name>>
Globals == {<<"collections", "OrderedDict">>,     \* built-in
            <<"collections", "Counter">>,         \* new member of an allow-listed module
            <<"collections", "deque">>,           \* never added
            <<"fractions", "Fraction">>,          \* new module
            <<"decimal", "Decimal">>,             \* new module
            <<"verif_sink", "hit">>,              \* never added
            <<"fractions", "Decimal">>}           \* never added: the NAME of one addition under the MODULE of another (it exists there)
Base0 == {<<"collections", "OrderedDict">>}
AddSets == <<{}, {<<"fractions", "Fraction">>}, {<<"collections", "Counter">>},
             {<<"fractions", "Fraction">>, <<"collections", "Counter">>, <<"decimal", "Decimal">>}>>
Ops == {"act0", "act1", "act2", "act3", "deact", "con0", "con1", "con2", "con3"}
AddOf(op) == CASE op \in {"act0", "con0"} -> AddSets[1] [] op \in {"act1", "con1"} -> AddSets[2]
               [] op \in {"act2", "con2"} -> AddSets[3] [] op \in {"act3", "con3"} -> AddSets[4] [] OTHER -> {}
BaseModules == {g[1] : g \in Base0}

VARIABLES hist,
          base,       \* the built-in table as it is NOW (the design may corrupt it)
          active, adds,     \* the activation currently in force (closure over also_allow)
          lastInst    \* permitted set of the unpickler constructed in the last step ({} if none)
vars == <<hist, base, active, adds, lastInst>>

Init == hist = <<>> /\ base = Base0 /\ active = FALSE /\ adds = {} /\ lastInst = {}

\* (a construction with additions may also go through the pickle module while an activation is in force -
\* pickle.Unpickler(f, also_allow = A), the class the activation installed: the instance's additions REPLACE the
\* activation's for that instance, so the same Construct(A) describes it; the harness replays both spellings)
\* FicklingMLUnpickler.__init__(also_allow = A): returns <<permitted set of the instance, new base>>
Construct(A) ==
  LET leak == IF ShallowCopy THEN {g \in A : g[1] \in BaseModules} ELSE {}     \* written into the shared inner dict
  IN <<base \cup A, base \cup leak>>

\* what an env-mediated load permits right now: a fresh instance is built per call from the closure's additions
EnvPermits == Construct(adds)[1]

Step(op) ==
  /\ hist' = Append(hist, op)
  /\ IF op = "deact" THEN active' = FALSE /\ adds' = {} /\ UNCHANGED base /\ lastInst' = {}
     ELSE IF op \in {"act0", "act1", "act2", "act3"}
          THEN active' = TRUE /\ adds' = AddOf(op) /\ lastInst' = {}
               /\ base' = Construct(AddOf(op))[2]        \* the probe load after activation builds an instance
          ELSE /\ lastInst' = Construct(AddOf(op))[1] /\ base' = Construct(AddOf(op))[2]
               /\ UNCHANGED <<active, adds>>
Next == Len(hist) < MaxLen /\ \E op \in Ops : Step(op)
Spec == Init /\ [][Next]_vars

\* ---- the property on the design
Exact      == active => EnvPermits = Base0 \cup adds
BaseFrozen == base = Base0
InstExact  == (hist # <<>> /\ hist[Len(hist)] \in {"con0", "con1", "con2", "con3"})
                 => lastInst = Base0 \cup AddOf(hist[Len(hist)])
View == <<base, active, adds, lastInst>>
Emit == Len(hist) = MaxLen => PrintT(<<"HIST", ToJson(hist)>>)
=============================================================================
