---- MODULE MC_eqkeys ----
(* members / keys that compare equal but are different values (1, True, 1.0): which representative a set or a dict keeps *)
(* depends on the order in which the machine adds them                                                                  *)
EXTENDS PickleGen, Ops
KTrue == K("bool", "bool:True", "n:1", "")
K1f   == K("float", "float:1.0", "n:1", "")
Alpha == { O("MARK"), O("STOP"), K1, KTrue, K1f, O("EMPTY_SET"), O("ADDITEMS"), O("FROZENSET"), O("EMPTY_DICT"), O("SETITEM"),
           O("DICT") }
====
