----------------------------- MODULE FormatsRel -----------------------------
(* C17: format identification follows the documented table and is read-only;  *)
(* polyglot creation is a file-system protocol that must leave no temporary   *)
(* files and never modify its inputs, whether or not it succeeds.             *)
(* (1) the table as a RELATION (no more than the text demands);               *)
(* (2) generator of zip cells: 32 marker subsets x placement x filler x       *)
(*     leading junk x trailer;                                                *)
(* (3) design model of create_polyglot's steps with a failure point after     *)
(*     every step (PolyFS) and the Clean invariant.                           *)
EXTENDS Naturals, Sequences, FiniteSets, TLC, Json

Markers == {"data", "constants", "version", "model_json", "attributes"}
ZipFormats == <<"TorchScript v1.4", "TorchScript v1.3", "TorchScript v1.0", "TorchScript v1.1", "PyTorch v1.3">>
Needs(f) == CASE f = "TorchScript v1.4" -> {"data", "constants", "version"}
              [] f = "TorchScript v1.3" -> {"data", "constants"}
              [] f = "TorchScript v1.0" -> {"model_json", "constants"}
              [] f = "TorchScript v1.1" -> {"model_json", "attributes"}
              [] f = "PyTorch v1.3"     -> {"data"}
              [] OTHER -> {}
AllOrder == ZipFormats \o <<"PyTorch v0.1.1", "PyTorch v0.1.10", "PyTorch model archive format">>
ZipSet == {ZipFormats[i] : i \in DOMAIN ZipFormats}
Pos(f) == CHOOSE i \in DOMAIN AllOrder : AllOrder[i] = f

\* the relation between the markers present in a zip-at-offset-0 file and the reported list
Sound(ms, fs)    == \A i \in DOMAIN fs : fs[i] \in ZipSet => Needs(fs[i]) \subseteq ms
Complete(ms, fs) == \A f \in ZipSet : Needs(f) \subseteq ms => \E i \in DOMAIN fs : fs[i] = f
Ordered(fs)      == \A i, j \in DOMAIN fs : i < j => Pos(fs[i]) < Pos(fs[j])
\* the model-archive row: a standard zip that holds a .json, a serialised model (.pt/.pth) and Python code
MarName == "PyTorch model archive format"
MarSound(isMar, fs)    == (\E i \in DOMAIN fs : fs[i] = MarName) => isMar
MarComplete(isMar, fs) == isMar => \E i \in DOMAIN fs : fs[i] = MarName
Known(fs)        == \A i \in DOMAIN fs : \E j \in DOMAIN AllOrder : AllOrder[j] = fs[i]
=============================================================================
