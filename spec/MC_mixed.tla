---- MODULE MC_mixed ----
EXTENDS PickleGen, Ops
Alpha == { O("MARK"), O("STOP"), G1, G2, O("STACK_GLOBAL"), SM1, SN1, I1, K1, K2, KNone, O("EMPTY_TUPLE"), O("TUPLE"), O("TUPLE1"), O("TUPLE2"), O("TUPLE3"), O("EMPTY_DICT"), O("EMPTY_LIST"), O("EMPTY_SET"), O("LIST"), O("DICT"), O("FROZENSET"), O("APPEND"), O("APPENDS"), O("SETITEM"), O("SETITEMS"), O("ADDITEMS"), O("REDUCE"), O("OBJ"), O("NEWOBJ"), O("NEWOBJ_EX"), O("BUILD"), O("BINPERSID"), PersidOp, O("POP"), O("POP_MARK"), O("DUP"), OA("PUT", 0), OA("PUT", 5), OA("GET", 0), OA("GET", 5), O("MEMOIZE"), OA("PROTO", 2), OA("PROTO", 4), O("FRAME") }
====
