------------------------------ MODULE VMTrace ------------------------------
(* Trace validation for the program-space properties.  One JSON record per  *)
(* pickle (harness/rec_vm.py): the program as specification opcodes, what   *)
(* CPython's unpickler did (ref) and what fickling did (fick).  TLC replays *)
(* the program on PickleVM!Eff and evaluates after every opcode             *)
(*     ref  : the reference agrees with the specification (binding of the   *)
(*            oracle; a failure is a defect of the machinery, not an alarm) *)
(*     C09  : fickling's stepping projection equals Proj                    *)
(* and at the end of the trace C03 (Covers), C05 (SameVal), C04 (Floor),    *)
(* C19 (ReportOK) and the tracing half of C09.  Verdicts are total: every   *)
(* trace ends in a state with v.done and one VERDICT line is printed.       *)
EXTENDS Analysis, TotalRel, Json, IOUtils, TLCExt     \* Analysis extends PickleVM and Verdict

T == JsonDeserialize(IOEnv.VERIF_TRACE)

VARIABLES tid, l, s, v
tvars == <<tid, l, s, v>>

V0 == [done |-> FALSE, dom |-> "in", ref |-> "ok", c09 |-> "ok", c09t |-> "na",
       c03 |-> "na", c05 |-> "na", c04 |-> "na", c19 |-> "na", floor |-> 0, mv |-> 0, nev |-> 0, st |-> "run"]

TInit == tid \in 1..Len(T) /\ l = 0 /\ s = S0 /\ v = V0

SeqSet(q) == {q[i] : i \in DOMAIN q}
ProjWhy(r, p) == IF r.depth # p.depth THEN "depth"
                 ELSE IF SeqSet(r.marks) # p.marks THEN "marks"
                 ELSE IF SeqSet(r.keys) # p.keys THEN "keys" ELSE "ok"

Keep(old, new) == IF old = "ok" THEN new ELSE old     \* first failing clause is kept

StepOp ==
  LET R == T[tid]  i == l + 1  t == Eff(R.prog[i], s)
      refHas == i <= Len(R.ref.steps)
      fickHas == i <= Len(R.fick.steps)
  IN
  /\ ~v.done /\ l < Len(R.prog) /\ s.st = "run"
  /\ l' = i /\ s' = t /\ UNCHANGED tid
  /\ IF t.st = "err"
     THEN v' = [v EXCEPT !.dom = IF t.why = "vm" THEN "in" ELSE t.why,
                         !.ref = Keep(@, IF t.why = "vm" /\ refHas
                                         THEN "spec-rejects-ref-accepts" ELSE "ok")]
     ELSE v' = [v EXCEPT !.ref = Keep(@, IF ~refHas THEN "spec-accepts-ref-rejects"
                                         ELSE LET w == ProjWhy(R.ref.steps[i], Proj(t)) IN
                                              IF w = "ok" THEN "ok" ELSE "ref-proj-" \o w),
                         !.c09 = Keep(@, IF ~fickHas THEN "ok"
                                         ELSE LET w == ProjWhy(R.fick.steps[i], Proj(t)) IN
                                              IF w = "ok" THEN "ok" ELSE "proj-" \o w \o "@" \o R.prog[i].o)]

\* ---- end-of-trace clauses
SameEvSeq(a, b) == Len(a) = Len(b) /\ \A i \in DOMAIN a : SameEv(a[i], b[i])

\* weaker cover when the decompiled program could not be executed: textual presence
StaticCount(st, kind, m, n) == Cardinality({j \in DOMAIN st : st[j].e = kind /\ (kind # "call" \/ m = "*" \/ (st[j].m = m /\ st[j].n = n))})
SpecCount(ev, kind, m, n) == Cardinality({j \in DOMAIN ev : ev[j].e = kind /\ (kind # "call" \/ m = "*" \/ (ev[j].f.k = "g" /\ ev[j].f.m = m /\ ev[j].f.n = n))})
CoversStatic(st, ev) ==
  /\ \A i \in DOMAIN ev : ev[i].e = "import" =>
        (ev[i].m = "builtins" \/ \E j \in DOMAIN st : st[j].e = "import" /\ st[j].m = ev[i].m)
  /\ \A i \in DOMAIN ev : (ev[i].e = "call" /\ ev[i].f.k = "g") =>
        StaticCount(st, "call", ev[i].f.m, ev[i].f.n) >= SpecCount(ev, "call", ev[i].f.m, ev[i].f.n)
  /\ StaticCount(st, "call", "*", "*") >= SpecCount(ev, "call", "*", "*")
  /\ StaticCount(st, "setstate", "", "") >= SpecCount(ev, "setstate", "", "")
  /\ StaticCount(st, "persid", "", "") >= SpecCount(ev, "persid", "", "")

C03Verdict(R) ==
  IF ~R.fick.dec.ok THEN "refused"
  ELSE IF R.fick.run.ok
       THEN LET u == FirstUncovered(R.fick.run.ev, s.ev) IN
            IF u = 0 THEN "ok" ELSE "uncovered-" \o s.ev[u].e
       ELSE IF R.fick.run.has_static
            THEN (IF CoversStatic(R.fick.run.static, s.ev) THEN "ok" ELSE "uncovered-static")
            ELSE "ok"                       \* the text is not a program at all: charged to C05

C05Verdict(R) ==
  IF ~R.fick.dec.ok THEN (IF R.tag = "plain" THEN "plain-data-refused" ELSE "refused")
  ELSE IF R.tag = "plain" /\ R.fick.plain.ran /\ ~R.fick.plain.equal
       THEN "plain-data-differs"          \* executed with the real builtins: not equal (value and type) to the original object
  ELSE IF ~Acyclic(s) THEN "na-cyclic"
  ELSE IF ~R.fick.run.ok THEN "exec-failed"
  ELSE IF SameVal(R.fick.run.res, Result(s)) THEN "ok" ELSE "value-mismatch"

C04Verdict(R) ==
  IF ~R.fick.chk.ok THEN "no-verdict"
  ELSE IF R.fick.chk.sev < Floor(s.ev) THEN "below-floor"
  ELSE IF R.fick.chk.inj_ran /\ R.fick.chk.inj_sev < OVERTLY_MALICIOUS THEN "below-floor-after-injecting-eval"
  ELSE "ok"

C19Verdict(R) == C19Why(R.fick.dec.ok, R.fick.chk)

C09TVerdict(R) ==
  IF ~R.fick.trace.ran THEN "na"
  ELSE IF ~R.fick.trace.ok THEN "trace-raised"
  ELSE IF ~R.fick.trace.ops_ok THEN "trace-opcodes"
  ELSE IF ~R.fick.trace.same_ast THEN "trace-changed-program"
  ELSE IF ~R.fick.trace.prefix_ok THEN "trace-" \o R.fick.trace.prefix_why
  ELSE IF ~R.fick.trace.observer_ok THEN "trace-changed-later-answers" ELSE "ok"

Finish ==
  LET R == T[tid] IN
  /\ ~v.done /\ (l = Len(R.prog) \/ s.st # "run")
  /\ UNCHANGED <<tid, l, s>>
  /\ IF s.st = "stop"
     THEN v' = [v EXCEPT !.done = TRUE, !.st = "stop", !.nev = Len(s.ev), !.floor = Floor(s.ev), !.mv = ModelVerdict(s.ev),
                         !.ref = Keep(@, IF ~R.ref.ok THEN "spec-stops-ref-raised"
                                         ELSE IF ~SameEvSeq(R.ref.ev, s.ev) THEN "ref-events"
                                         ELSE IF ~SameVal(R.ref.res, Result(s)) THEN "ref-result" ELSE "ok"),
                         !.c03 = C03Verdict(R), !.c05 = C05Verdict(R), !.c04 = C04Verdict(R),
                         !.c19 = C19Verdict(R), !.c09t = C09TVerdict(R)]
     ELSE v' = [v EXCEPT !.done = TRUE, !.st = s.st,
                         !.ref = Keep(@, IF s.st = "run" /\ R.ref.ok THEN "spec-unfinished-ref-returned"
                                         ELSE IF s.st = "err" /\ s.why = "vm" /\ R.ref.ok THEN "spec-rejects-ref-accepts"
                                         ELSE "ok")]

TNext == StepOp \/ Finish
TSpec == TInit /\ [][TNext]_tvars

Report == v.done => PrintT(<<"VERDICT", T[tid].id, ToJson(v)>>)
=============================================================================
