SPECIFICATION Spec
INVARIANT NothingRuns
INVARIANT Report
CHECK_DEADLOCK FALSE
