---------------------------- MODULE TorchZipTrace ----------------------------
(* record (harness/c16child.py): names_in, names_out, same <<bool per member>> *)
(* (byte-identical; the model pickle's entry says whether it equals the        *)
(* library injector applied to the original model pickle), pkl_index,          *)
(* overwrite, input_same (sha256 of the input unchanged), input_is_injected,   *)
(* stray <<files>>, ran (payload executions on full load), model_equal, loaded *)
EXTENDS Naturals, Sequences, TLC, Json, IOUtils, TLCExt
T == JsonDeserialize(IOEnv.VERIF_TRACE)
VARIABLES tid, done, verdict
vars == <<tid, done, verdict>>
Init == tid \in 1..Len(T) /\ done = FALSE /\ verdict = ""
Why(R) ==
  IF ~R.injected_ok THEN "injection raised: " \o R.exc
  ELSE IF R.names_out # R.names_in THEN "member names or their order changed"
  ELSE IF \E i \in DOMAIN R.same : i # R.pkl_index /\ ~R.same[i] THEN "a member other than the model pickle is not byte-identical"
  ELSE IF ~R.same[R.pkl_index] THEN "the model pickle is not the original with the injected call added"
  ELSE IF ~R.overwrite /\ ~R.input_same THEN "the input file was modified although overwrite was not requested"
  ELSE IF R.overwrite /\ ~R.input_is_injected THEN "overwrite requested but the input is not the injected archive"
  ELSE IF Len(R.stray) > 0 THEN "stray file left: " \o R.stray[1]
  ELSE IF ~R.loaded THEN "the injected archive does not load with full unpickling: " \o R.exc
  ELSE IF R.ran # 1 THEN "payload ran " \o ToString(R.ran) \o " times"
  ELSE IF ~R.model_equal THEN "the reconstructed model differs from the original"
  ELSE "ok"
Judge == /\ ~done /\ done' = TRUE /\ UNCHANGED tid /\ verdict' = Why(T[tid])
Spec == Init /\ [][Judge]_vars
Report == done => PrintT(<<"VERDICT", T[tid].id, ToJson([v |-> verdict])>>)
=============================================================================
