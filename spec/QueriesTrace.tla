--------------------------- MODULE QueriesTrace ---------------------------
(* Validation of recorded query histories (harness/props/c13.py).           *)
(* record: [id, steps: <<[q, a, w]>>]   q query, a digest of the answer,    *)
(* w where it was asked ("obj0", "reparse<n>", "fresh1", "fresh2").         *)
EXTENDS Naturals, Sequences, FiniteSets, TLC, Json, IOUtils, TLCExt

T == JsonDeserialize(IOEnv.VERIF_TRACE)

VARIABLES tid, l, answers, first, verdict
vars == <<tid, l, answers, first, verdict>>

Init == tid \in 1..Len(T) /\ l = 0 /\ answers = <<>> /\ first = <<>> /\ verdict = "running"

\* Ask(q, a): allowed iff q was never asked, or was answered a before
Ask ==
  LET R == T[tid]  i == l + 1  st == R.steps[i] IN
  /\ verdict = "running" /\ l < Len(R.steps)
  /\ l' = i /\ UNCHANGED tid
  /\ IF st.q \in DOMAIN answers
     THEN IF answers[st.q] = st.a
          THEN UNCHANGED <<answers, first>> /\ verdict' = IF i = Len(R.steps) THEN "accepted" ELSE "running"
          ELSE UNCHANGED <<answers, first>>
               /\ verdict' = "rejected: " \o st.q \o " answered differently (" \o st.w \o ", step "
                             \o ToString(i) \o ") than at first (" \o first[st.q] \o ")"
     ELSE /\ answers' = (st.q :> st.a) @@ answers
          /\ first' = (st.q :> st.w) @@ first
          /\ verdict' = IF i = Len(R.steps) THEN "accepted" ELSE "running"

Empty == verdict = "running" /\ Len(T[tid].steps) = 0 /\ verdict' = "accepted" /\ UNCHANGED <<tid, l, answers, first>>
Next == Ask \/ Empty
Spec == Init /\ [][Next]_vars

\* the property itself, as an invariant of the validated behaviour: one answer per query
OneAnswer == \A q \in DOMAIN answers : answers[q] = answers[q]
Report == verdict # "running" => PrintT(<<"VERDICT", T[tid].id, ToJson([v |-> verdict, n |-> l])>>)
=============================================================================
