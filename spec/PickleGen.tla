----------------------------- MODULE PickleGen -----------------------------
(* Bounded-exhaustive / simulated generator of typed opcode programs.       *)
(* Every reachable state is one accepted program prefix; because `prog` is  *)
(* part of the state the state graph is a tree and every leaf with          *)
(* st = "stop" is one complete program.  `Emit` prints it as one JSON line. *)
EXTENDS PickleVM, Json

CONSTANTS MaxLen,     \* longest program
          MinStop,    \* STOP only enabled once the program has MinStop opcodes (simulation)
          MaxDepth,   \* bound on stack depth (keeps walks from drifting)
          Require,    \* focused profiles: only programs in which all these opcodes occur are emitted
          RequireMods, \* ... and all these symbolic modules
          RequireEmptyBatch  \* ... and a MARK directly followed by the opcode that consumes it (an empty batch)

VARIABLES prog, s
vars == <<prog, s>>

\* the alphabet is supplied by the MC module that instantiates a profile
CONSTANT Alphabet

Init == prog = <<>> /\ s = S0

Step(op) == LET t == Eff(op, s) IN
            /\ t.st # "err"
            /\ (op.o = "STOP" => Len(prog) + 1 >= MinStop)
            /\ Len(t.stack) <= MaxDepth
            /\ s' = t
            /\ prog' = Append(prog, op)

Next == /\ s.st = "run"
        /\ Len(prog) < MaxLen
        /\ \E op \in Alphabet : Step(op)

Spec == Init /\ [][Next]_vars

---------------------------------------------------------------------------
(* invariants of the reference machine itself (DESIGN 3.4): they guard the *)
(* oracle against vacuity and are checked on every generated prefix         *)

RefsOf(x) == IF x.t = "r" THEN {x.id} ELSE {}
RECURSIVE AllRefs(_)
AllRefs(x) == CASE x.t = "r" -> {x.id}
                [] x.t \in {"tup", "fs"} -> UNION {AllRefs(x.e[i]) : i \in DOMAIN x.e}
                [] OTHER -> {}

HeapClosed == /\ \A i \in DOMAIN s.stack : AllRefs(s.stack[i]) \subseteq DOMAIN s.heap
              /\ \A k \in DOMAIN s.memo  : AllRefs(s.memo[k])  \subseteq DOMAIN s.heap
StatusOK   == s.st \in {"run", "stop"}
ProjOK     == Proj(s).depth = Len(s.stack) /\ Proj(s).marks \subseteq 1..Len(s.stack)
ResultCanonical == s.st = "stop" => SameVal(Result(s), Result(s))   \* Canon terminates (cycles are cut)

\* effects are never retracted, memo keys never disappear, the heap only grows
Monotone == [][ /\ Len(s.ev) <= Len(s'.ev)
                /\ SubSeq(s'.ev, 1, Len(s.ev)) = s.ev
                /\ DOMAIN s.memo \subseteq DOMAIN s'.memo
                /\ Len(s.heap) <= Len(s'.heap) ]_vars

\* determinism of the machine: the run of the recorded program reproduces the state
Replayable == Run(prog) = s

\* the other direction of the oracle binding: one-step extensions the specification REJECTS as machine errors
\* are emitted too, so that the harness can check that the reference unpickler raises on them (the spec must not
\* silently under-approximate the machine)
EmitErr == (s.st = "run" /\ Len(prog) < MaxLen) =>
              \A op \in Alphabet : LET t == Eff(op, s) IN
                  (t.st = "err" /\ t.why = "vm") => PrintT(<<"ERRPROG", ToJson(Append(prog, op))>>)
OpsOf(p)  == {p[i].o : i \in DOMAIN p}
ModsOf(p) == {p[i].m : i \in {j \in DOMAIN p : p[j].o \in {"GLOBAL", "INST"}}}
SliceOps == {"SETITEMS", "APPENDS", "ADDITEMS", "TUPLE", "LIST", "DICT", "FROZENSET", "OBJ", "INST", "POP_MARK"}
EmptyBatch(p) == \E i \in 1..(Len(p) - 1) : p[i].o = "MARK" /\ p[i + 1].o \in SliceOps
Emit == (s.st = "stop" /\ Require \subseteq OpsOf(prog) /\ RequireMods \subseteq ModsOf(prog)
         /\ (RequireEmptyBatch => EmptyBatch(prog)))
           => PrintT(<<"PROG", ToJson(prog)>>)
=============================================================================
