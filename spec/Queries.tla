------------------------------ MODULE Queries ------------------------------
(* C13: answers depend only on the bytes.                                   *)
(* A pickle (its bytes never change) is asked read-only queries in any      *)
(* order, on the same object, on a re-parsed copy or in a fresh process     *)
(* with another hash seed.  The specification keeps the first answer given  *)
(* to each query; every later answer to the same query must equal it.       *)
(* The generator half enumerates the histories; QueriesTrace validates what *)
(* the real library answered.                                               *)
EXTENDS Naturals, Sequences, FiniteSets, TLC, Json

CONSTANTS MaxLen
Query == {"source", "ast", "severity", "findings", "imports", "calls", "flags", "unused",
          "nonstd", "unsafe", "trace", "dumps",
          \* decompiling / tracing the way the command line does for a member of a stack (own variable numbering and
          \* result name): a read-only query like the others
          "source_cli", "trace_cli",
          \* the safety check with a caller-supplied analyzer (every analysis on its own; the ML recipe)
          "findings_each", "severity_ml"}
Where == {"reparse", "fresh1", "fresh2"}      \* switch to a re-parsed copy (the harness rotates: from the byte string, from a
                                              \* stream behind other bytes, as the second member of a stack) / a fresh process
Step  == Query \cup Where

VARIABLES hist
Init == hist = <<>>
Next == Len(hist) < MaxLen /\ \E q \in Step : hist' = Append(hist, q)
Spec == Init /\ [][Next]_hist

\* a history is worth replaying when it ends in a query (a trailing switch observes nothing)
Emit == (Len(hist) = MaxLen /\ hist[Len(hist)] \in Query) => PrintT(<<"HIST", ToJson(hist)>>)
TypeOK == hist \in Seq(Step)
=============================================================================
