------------------------------- MODULE Const -------------------------------
(* C15: injected constants mean what was asked, or are refused.             *)
(* Transcription of ConstantOpcode.new (fickling/fickle.py): a priority     *)
(* search over validator predicates, on VALUE CLASSES, and of what the      *)
(* standard unpickler makes of the chosen encoding.  TLC evaluates          *)
(* RoundTrip on every class and emits the cells for the replay.             *)
EXTENDS Naturals, Sequences, FiniteSets, TLC, Json

CONSTANTS StrictInt,    \* TRUE: Int/ConstantInt validators accept exactly `int` (as coded after the fix)
          HexFallback   \* TRUE: INT/LONG write hexadecimal text when the decimal conversion is refused (a mutated design)

ValueClass == {"bool", "int_u8", "int_u16", "int_big", "int_neg", "int_huge", "float_integral", "float_fractional",
               "float_inf", "float_nan", "str_numeric", "str_short", "str_long", "str_layout", "bytes_numeric",
               "bytes_short", "bytes_long", "none", "list", "dict", "other"}
IsInt(v)   == v \in {"int_u8", "int_u16", "int_big", "int_neg", "int_huge"}   \* int_huge: more decimal digits than str() gives
IsFloat(v) == v \in {"float_integral", "float_fractional", "float_inf", "float_nan"}
IsStr(v)   == v \in {"str_numeric", "str_short", "str_long", "str_layout"}
IsBytes(v) == v \in {"bytes_numeric", "bytes_short", "bytes_long"}

\* subclasses of ConstantOpcode in priority order (ties in definition order)
Order == <<"BININT1", "BININT2", "BININT", "LONG1", "LONG4", "INT", "LONG", "BINFLOAT",
           "SHORT_BINUNICODE", "BINUNICODE", "BINUNICODE8", "UNICODE", "STRING", "SHORT_BINBYTES",
           "SHORT_BINSTRING", "BINSTRING", "BINBYTES", "BINBYTES8">>

\* validate(): "ok" | "no" (ValueError: try the next class) | "raise" (another exception escapes new())
Validate(c, v) ==
  CASE c = "BININT1" -> IF v = "int_u8" \/ (v = "bool" /\ ~StrictInt) THEN "ok" ELSE "no"
    [] c = "BININT2" -> IF v \in {"int_u8", "int_u16"} \/ (v = "bool" /\ ~StrictInt) THEN "ok" ELSE "no"
    [] c \in {"BININT", "LONG1", "LONG4"} -> "no"        \* signed range is computed inverted: min > max
    [] c \in {"INT", "LONG"} ->
         IF StrictInt THEN (IF IsInt(v) THEN "ok" ELSE "no")
         ELSE \* `_ = int(obj)`
              IF IsInt(v) \/ v \in {"bool", "float_integral", "float_fractional", "str_numeric", "bytes_numeric"} THEN "ok"
              ELSE IF v = "float_inf" THEN "raise"                  \* OverflowError is not a ValueError
              ELSE IF v \in {"none", "list", "dict", "other"} THEN "raise"    \* TypeError
              ELSE "no"
    [] c = "BINFLOAT" -> IF IsFloat(v) THEN "ok" ELSE "no"
    [] c = "SHORT_BINUNICODE" -> IF v \in {"str_numeric", "str_short", "str_layout"} THEN "ok" ELSE "no"
    [] c \in {"BINUNICODE", "BINUNICODE8", "UNICODE", "STRING", "SHORT_BINSTRING", "BINSTRING"} -> IF IsStr(v) THEN "ok" ELSE "no"
    [] c = "SHORT_BINBYTES" -> IF v \in {"bytes_numeric", "bytes_short"} THEN "ok" ELSE "no"
    [] c \in {"BINBYTES", "BINBYTES8"} -> IF IsBytes(v) THEN "ok" ELSE "no"

RECURSIVE Search(_, _)
Search(v, i) == IF i > Len(Order) THEN "refused"
                ELSE LET r == Validate(Order[i], v) IN
                     IF r = "ok" THEN Order[i] ELSE IF r = "raise" THEN "refused" ELSE Search(v, i + 1)
Chosen(v) == IF v \in {"list", "dict"} THEN "container"          \* encoded element-wise by _encode_python_obj
             ELSE IF v \in {"none", "other"} /\ StrictInt THEN "refused"
             ELSE Search(v, 1)

\* what arrives when the standard unpickler reads opcode c built from a value of class v
Arrives(c, v) ==
  CASE c = "refused" -> "refused"
    [] c = "container" -> "same"
    [] c \in {"BININT1", "BININT2"} -> IF v = "bool" THEN "different-kind" ELSE "same"
    [] c \in {"INT", "LONG"} -> IF v = "int_huge" THEN (IF HexFallback THEN "same" ELSE "refused")   \* str(value) raises ValueError; the unpickler reads base 0
                               ELSE IF IsInt(v) THEN "same" ELSE IF v = "float_fractional" THEN "different-value" ELSE "different-kind"
    [] c = "BINFLOAT" -> "refused"                 \* no encode_body: dumps() raises NotImplementedError
    [] c \in {"SHORT_BINUNICODE", "BINUNICODE", "BINUNICODE8", "SHORT_BINBYTES", "BINBYTES", "BINBYTES8"} -> "same"
    [] OTHER -> "unknown"

\* what the standard disassembler (pickletools: decimal only) reads back from the chosen opcode's bytes
ReadsBack(c, v) ==
  CASE c \in {"refused", "container"} -> "refused"
    [] c \in {"INT", "LONG"} /\ v = "int_huge" -> IF HexFallback THEN "unreadable" ELSE "refused"
    [] c = "BINFLOAT" -> "refused"
    [] OTHER -> "same"

RoundTrip == \A v \in ValueClass : Arrives(Chosen(v), v) \in {"same", "refused"}

VARIABLE cell
Init == cell \in ValueClass
Next == UNCHANGED cell
Spec == Init /\ [][Next]_cell
RoundTripInv == Arrives(Chosen(cell), cell) \in {"same", "refused"}
ReadBackInv  == ReadsBack(Chosen(cell), cell) \in {"same", "refused"}
Emit == PrintT(<<"CELL", ToJson([cls |-> cell, chosen |-> Chosen(cell), arrives |-> Arrives(Chosen(cell), cell)])>>)
=============================================================================
