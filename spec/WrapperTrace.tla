---------------------------- MODULE WrapperTrace ----------------------------
(* record: fs, force, exc (class name or "none"), warnings, returned (the list handed back, <<>> when it raised) *)
EXTENDS WrapperRel, TLC, Json, IOUtils, TLCExt
T == JsonDeserialize(IOEnv.VERIF_TRACE)
VARIABLES tid, done, verdict
vars == <<tid, done, verdict>>
Init == tid \in 1..Len(T) /\ done = FALSE /\ verdict = ""
Why(R) ==
  LET e == Validate(R.fs, R.force) IN
  IF R.exc # e.exc THEN "raises " \o R.exc \o " where the table says " \o e.exc
  ELSE IF R.warnings # e.warnings THEN ToString(R.warnings) \o " warning(s) where the table says " \o ToString(e.warnings)
  ELSE IF e.exc = "none" /\ R.returned # R.fs THEN "hands back another list than the one identified"
  ELSE "ok"
Judge == /\ ~done /\ done' = TRUE /\ UNCHANGED tid /\ verdict' = Why(T[tid])
Spec == Init /\ [][Judge]_vars
Report == done => PrintT(<<"VERDICT", T[tid].id, ToJson([v |-> verdict])>>)
=============================================================================
