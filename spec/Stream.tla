------------------------------- MODULE Stream -------------------------------
(* C06: parse / re-serialise is byte-exact; stacked pickles partition the    *)
(* input.  Layout model: the input is a start offset followed by segments;   *)
(* every segment is a complete pickle of some class, or trailing junk, or a  *)
(* truncated pickle.  The generator enumerates layouts x stream kinds;       *)
(* StreamTrace checks the positions, slices and remainders recorded from     *)
(* Pickled.load / StackedPickle.load against the layout.                     *)
EXTENDS Naturals, Sequences, FiniteSets, TLC, Json
CONSTANTS MaxPickles
Class == {"atom", "p0text", "binlen0", "binlen255", "binlen256", "binlen65536", "ints", "memo", "globals",
          "natural_lo", "natural_hi", "len8",
          "nonascii",
          "spellings",     \* one pickle with two different byte spellings of equal arguments under the same opcode
          "frames",        \* FRAME lengths the pickler never writes: under-announcing, zero, two frames in one pickle
          "frames_over"}   \* ... and over-announcing (the announced frame reaches into what follows the pickle).  The first pickle
                           \* still ends at its STOP - that is what re-serialising reproduces and what the partition of a stack
                           \* is made of - but the stock unpickler itself reads on to the end of the announced frame, so the
                           \* cross-check against its stopping point is not applied to this class      \* text whose encoded length differs from its length in characters (2-, 3-, 4-byte UTF-8, lone surrogates, Latin-1 bytes)
Trail == {"none", "junk", "truncated"}
Kind  == {"bytes", "bytearray", "seekable", "file", "buffered", "nonseekable"}      \* seekable = io.BytesIO, file = a real file opened "rb",
                                                                          \* buffered = io.BufferedReader over a raw stream; bytearray = a caller-owned
                                                                          \* mutable buffer that is overwritten after the parse (the parsed
                                                                          \* result must not alias it)
VARIABLES classes, trail, offset, kind
vars == <<classes, trail, offset, kind>>
Init == /\ \E n \in 1..MaxPickles : classes \in [1..n -> Class]
        /\ trail \in Trail /\ offset \in {0, 7} /\ kind \in Kind
Next == UNCHANGED vars
Spec == Init /\ [][Next]_vars
Emit == PrintT(<<"CASE", ToJson([classes |-> classes, trail |-> trail, offset |-> offset, kind |-> kind])>>)
=============================================================================
