---------------------------- MODULE CliArgsTrace ----------------------------
(* record (harness/cliargs.py): f (list of flags), i, ch, k, and what the real  *)
(* command line did: rc, out ("none"|"text"|"pickles"), nout, err, json, created *)
EXTENDS CliArgsRel, TLC, Json, IOUtils, TLCExt
T == JsonDeserialize(IOEnv.VERIF_TRACE)
VARIABLES tid, done, verdict
vars == <<tid, done, verdict>>
Init == tid \in 1..Len(T) /\ done = FALSE /\ verdict = ""
SeqSet(q) == {q[j] : j \in DOMAIN q}
Why(R) ==
  LET e == Expected(SeqSet(R.f), R.i, R.ch, R.k) IN
  IF R.rc # e.rc THEN "exit status " \o ToString(R.rc) \o " where the table says " \o ToString(e.rc)
  ELSE IF R.out # e.out THEN "output kind " \o R.out \o " where the table says " \o e.out
  ELSE IF R.out = "pickles" /\ R.nout # e.nout THEN "emitted " \o ToString(R.nout) \o " pickles where the table says " \o ToString(e.nout)
  ELSE IF R.err # e.err THEN "diagnostic " \o R.err \o " where the table says " \o e.err
  ELSE IF R.json # e.json THEN "report holds " \o ToString(R.json) \o " documents where the table says " \o ToString(e.json)
  ELSE IF R.created # e.created THEN "created-file differs"
  ELSE "ok"
Judge == /\ ~done /\ done' = TRUE /\ UNCHANGED tid /\ verdict' = Why(T[tid])
Spec == Init /\ [][Judge]_vars
Report == done => PrintT(<<"VERDICT", T[tid].id, ToJson([v |-> verdict])>>)
=============================================================================
