----------------------------- MODULE ConstTrace -----------------------------
(* record (harness/props/c15.py): kind "inject" (a value pushed through an    *)
(* injection / creation helper and received by the sink in the unpickling    *)
(* process) or "encode" (an opcode object encoded and read back by the       *)
(* standard disassembler); outcome in {"same", "refused", "different"}.      *)
EXTENDS Naturals, Sequences, TLC, Json, IOUtils, TLCExt
T == JsonDeserialize(IOEnv.VERIF_TRACE)
VARIABLES tid, done, verdict
vars == <<tid, done, verdict>>
Init == tid \in 1..Len(T) /\ done = FALSE /\ verdict = ""
Judge == /\ ~done /\ done' = TRUE /\ UNCHANGED tid
         /\ verdict' = IF T[tid].outcome \in {"same", "refused"} THEN "ok"
                       ELSE IF T[tid].kind = "inject"
                            THEN "value silently arrives different via " \o T[tid].via \o ": " \o T[tid].cls \o " " \o T[tid].detail
                            ELSE "opcode " \o T[tid].cls \o " encodes to bytes read back differently: " \o T[tid].detail
Spec == Init /\ [][Judge]_vars
Report == done => PrintT(<<"VERDICT", T[tid].id, ToJson([v |-> verdict])>>)
=============================================================================
