----------------------------- MODULE InjectGen -----------------------------
(* Design check of the injector: on every CLEAN complete program generated   *)
(* by a profile (exactly one value on the VM stack at STOP) the transcribed  *)
(* helpers must satisfy InjOK in every mode.  Clean programs are also        *)
(* emitted as bases for the replay on the real injector.                     *)
EXTENDS Inject, Json
CONSTANTS MaxLen, MinStop, MaxDepth, Alphabet, CheckModes
VARIABLES prog, s
vars == <<prog, s>>
Init == prog = <<>> /\ s = S0
Step(op) == LET t == Eff(op, s) IN
            /\ t.st # "err" /\ (op.o = "STOP" => Len(prog) + 1 >= MinStop) /\ Len(t.stack) <= MaxDepth
            /\ s' = t /\ prog' = Append(prog, op)
Next == s.st = "run" /\ Len(prog) < MaxLen /\ \E op \in Alphabet : Step(op)
Spec == Init /\ [][Next]_vars
Clean == s.st = "stop" /\ Len(s.stack) = 0
DesignInjOK == Clean => /\ \A mode \in CheckModes : InjOK(prog, Rewrite(prog, mode), mode)
                        /\ \A mode \in FnModeSet : FnWhyOf(prog, RewriteFn(prog, mode, SymK), mode) = "ok"
Emit == Clean => PrintT(<<"BASE", ToJson(prog)>>)
=============================================================================
