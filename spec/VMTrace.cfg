CONSTANTS PollutedDedup = FALSE
 BadCallsExempt = FALSE
SPECIFICATION TSpec
INVARIANT Report
CHECK_DEADLOCK FALSE
