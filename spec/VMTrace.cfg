CONSTANTS PollutedDedup = FALSE
 BadCallsExempt = FALSE
 DottedExempt = FALSE
SPECIFICATION TSpec
INVARIANT Report
CHECK_DEADLOCK FALSE
