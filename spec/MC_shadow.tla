---- MODULE MC_shadow ----
(* two globals with the SAME attribute name from different modules (G1 = M1.N1, G3 = M2.N1): name-based rules *)
EXTENDS PickleGen, Ops
G3 == GLOBAL("M2", "N1")
Alpha == { O("MARK"), O("STOP"), G1, G3, K1, O("EMPTY_TUPLE"), O("TUPLE1"), O("REDUCE"), O("OBJ"), O("POP"), O("TUPLE2") }
====
