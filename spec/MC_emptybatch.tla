---- MODULE MC_emptybatch ----
(* batches of zero items: MARK directly followed by SETITEMS / APPENDS / ADDITEMS / DICT on targets of every kind *)
EXTENDS PickleGen, Ops
Alpha == { O("MARK"), O("STOP"), K1, O("EMPTY_DICT"), O("DICT"), O("SETITEM"), O("SETITEMS"), O("EMPTY_LIST"),
           O("APPENDS"), O("EMPTY_SET"), O("ADDITEMS") }
====
