---- MODULE MCI_calls ----
EXTENDS InjectGen, Ops
Alpha == { O("MARK"), O("STOP"), G1, I1, K1, O("EMPTY_TUPLE"), O("TUPLE"), O("TUPLE1"), O("EMPTY_DICT"), O("REDUCE"), O("OBJ"), O("NEWOBJ"), O("BUILD"), O("POP"), O("POP_MARK"), O("DUP"), OA("PUT", 0), OA("GET", 0), O("MEMOIZE") }
AllModes == Modes
NoNopop == Modes \ {"append_nopop"}
====
