------------------------------ MODULE TotalRel ------------------------------
(* C19 as a relation on what was recorded for one pickle (harness/rec_vm.py):  *)
(* whenever it decompiles, the safety check returns a verdict, every finding   *)
(* is well-formed, the summary is JSON-serialisable and names its severity,    *)
(* and the checked loader's unsafe-file error (and the report file, when one   *)
(* is asked for) carry the same content.  Shared by VMTrace (programs of the   *)
(* typed domain) and TotalTrace (pickles whose global names are outside it).   *)
C19Why(decOk, chk) ==
  IF ~decOk THEN "refused"
  ELSE IF ~chk.ran THEN "na"
  ELSE IF ~chk.ok THEN "analysis-raised"
  ELSE IF ~chk.find_ok THEN "malformed-finding"
  ELSE IF ~chk.json_ok THEN "report-not-json"
  ELSE IF ~chk.sevname_ok THEN "report-severity-differs"
  ELSE IF chk.loader_ran /\ ~chk.loader_ok THEN chk.loader_why ELSE "ok"
=============================================================================
