---- MODULE MC_memoglobal ----
(* module / attribute names of STACK_GLOBAL travelling through the memo (sparse PUT keys vs MEMOIZE) *)
EXTENDS PickleGen, Ops
SM2 == K("str", "str:'M2'", "s:'M2'", "M2")
Alpha == { O("STOP"), SM1, SM2, SN1, OA("PUT", 1), OA("GET", 1), O("MEMOIZE"), O("STACK_GLOBAL"), O("POP") }
====
