---- MODULE MC_memoslots ----
(* sparse PUT keys interleaved with MEMOIZE (which always writes key len(memo), overwriting) and GET *)
EXTENDS PickleGen, Ops
Alpha == { O("STOP"), K1, K2, O("EMPTY_LIST"), OA("PUT", 1), OA("PUT", 2), OA("GET", 1), OA("GET", 2), O("MEMOIZE"), O("TUPLE2"), O("POP") }
====
