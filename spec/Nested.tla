------------------------------- MODULE Nested -------------------------------
(* C07: the safe ML environment mediates every global, also in nested       *)
(* unpicklings.  A payload is a chain of levels; level i is an object whose *)
(* unpickling calls wrapper w_i on the serialised level i+1; the innermost  *)
(* level resolves one global g.  The design model is a stack of running     *)
(* unpicklers, each mediated or not depending on HOW the library that       *)
(* implements the wrapper reaches the pickle module; the property is that   *)
(* every resolved global is in Base \cup adds and the first outsider aborts *)
(* the whole load.  The generator emits every configuration.                *)
EXTENDS Integers, Sequences, FiniteSets, TLC, Json
CONSTANTS MaxDepth,
          ClassHooked        \* TRUE: pickle.Unpickler is rebound too while the environment is active

Wrapper   == {"lfb", "ploads", "cloads"}          \* torch.storage._load_from_bytes, pickle.loads, _pickle.loads
Container == {"bare", "legacy", "zip"}
Inner     == {"allowed", "sink", "dangerous", "mlonly", "sinkinst", "dotted", "cross", "oddname", "extcold", "extwarm"}   \* ext*: the global is named by an extension code (EXT1; the application registered the code with copyreg) - extwarm: an unmediated load before the activation has already resolved that code once   \* oddname: an allow-listed MODULE with a name no pickler writes but the GLOBAL opcodes may carry (braces, blanks, non-ASCII): not allow-listed, so refused - with the unsafe-file error   \* cross: the MODULE of one addition with the NAME of another (verif_sink / loads): the pair was never added   \* dotted: a protocol-4 qualified name whose FIRST component is allow-listed (collections / OrderedDict.fromkeys): the pair (module, name) is not   \* sinkinst: hand-assembled protocol-0 INST payload    \* mlonly: standard-library classes the static check rates LIKELY_SAFE
Entry     == {"load", "loads", "cload", "cloads"}
AddSet    == {"none", "loaders", "loaders+other"}
\* what happened in the same activation before the probed load: nothing, or a load that named an allow-listed global of a
\* package that is not installed (it fails with ImportError; the protection must survive a load that ends by exception)
Prelude   == {"none", "failed_allowed"}
Layer     == {"ml", "ml+context", "ml+armed"}      \* what else is installed on pickle.load on top of the active environment
\* a wrapper accepts only some serialisations of the next level
Fits(w, c) == IF w = "lfb" THEN c \in {"legacy", "zip"} ELSE c = "bare"
\* how the implementation of a wrapper reaches the pickle module for container c
Via(w, c) == IF w = "lfb" THEN "unpickler_class" ELSE "hooked_function"
AllowedWrapper(w, adds) == w = "lfb" \/ adds # "none"
AllowedInner(g, adds) == g = "allowed"

VARIABLES chain, inner, entry, adds, layer, prelude
vars == <<chain, inner, entry, adds, layer, prelude>>
Init == /\ \E d \in 0..MaxDepth : chain \in [1..d -> Wrapper \X Container]
        /\ \A i \in DOMAIN chain : Fits(chain[i][1], chain[i][2])
        /\ inner \in Inner /\ entry \in Entry /\ adds \in AddSet
        /\ prelude \in (IF Len(chain) <= 1 THEN Prelude ELSE {"none"})
        \* the extra layers only sit on pickle.load; an extension-code payload is only put before the environment ALONE (the
        \* static check stacked on top refuses the EXT opcodes it cannot decompile before the environment is asked)
        /\ layer \in (IF entry = "load" /\ inner \notin {"extcold", "extwarm"} THEN Layer ELSE {"ml"})
Next == UNCHANGED vars
Spec == Init /\ [][Next]_vars

\* ---- design: which unpicklers are mediated, which globals get resolved
Mediated(i) == i = 0 \/ Via(chain[i][1], chain[i][2]) = "hooked_function" \/ ClassHooked    \* level 0 = the entry point
\* the level-i unpickler resolves wrapper chain[i+1] (or the inner global at the last level)
FirstOutsider ==
  LET n == Len(chain)
      bad == {i \in 0..n : IF i < n THEN ~AllowedWrapper(chain[i + 1][1], adds) ELSE ~AllowedInner(inner, adds)}
  IN IF bad = {} THEN -1 ELSE CHOOSE i \in bad : \A j \in bad : i <= j
\* design prediction: the outsider at level i is blocked iff the unpickler of level i is mediated
DesignBlocks == FirstOutsider = -1 \/ Mediated(FirstOutsider)
MediatesAll == DesignBlocks
Emit == PrintT(<<"CASE", ToJson([chain |-> chain, inner |-> inner, entry |-> entry, adds |-> adds, layer |-> layer, prelude |-> prelude,
                                 outsider |-> FirstOutsider # -1])>>)
=============================================================================
