------------------------------- MODULE FickVM -------------------------------
(* Design model of fickling's SYMBOLIC interpreter (fickling/fickle.py,      *)
(* Interpreter + Opcode.run methods) at the level property C09 talks about:  *)
(* the symbolic stack (kinds of AST nodes and mark sentinels), the memo keys *)
(* and whether the interpreter raises.  One CASE arm per Opcode.run.         *)
(* Refinement checked by TLC on every generated program prefix               *)
(* (FickGen.tla):  FickVM does not raise  =>  FProj(f) = PickleVM!Proj(s).   *)
EXTENDS PickleVM
CONSTANT PinnedAddItems     \* FALSE: as coded after the fix; TRUE: ADDITEMS also pops the set (the pinned defect)

\* node kinds on the symbolic stack
\*   "mark" MarkObject | "const" ast.Constant | "name" ast.Name (global or _varN) | "tuple" | "list" | "dict0" empty
\*   ast.Dict literal | "dict" non-empty ast.Dict literal | "set" ast.Set | "call" (frozenset(...) expression)
F0 == [stack |-> <<>>, keys |-> {}, st |-> "run"]
FErr(f) == [f EXCEPT !.st = "raised"]

FMarkIdx(stk) == LET S == {i \in 1..Len(stk) : stk[i] = "mark"} IN IF S = {} THEN 0 ELSE CHOOSE i \in S : \A j \in S : j <= i

FEff(op, f) ==
  LET stk == f.stack  n == Len(stk)  mi == FMarkIdx(stk)
      below == SubSeq(stk, 1, mi - 1)
      push(x)   == [f EXCEPT !.stack = Append(stk, x)]
      popN(k, x) == IF n < k THEN FErr(f) ELSE [f EXCEPT !.stack = Append(SubSeq(stk, 1, n - k), x)]   \* pops k items (marks included)
      slice(x)  == IF mi = 0 THEN FErr(f) ELSE [f EXCEPT !.stack = Append(below, x)]                   \* StackSliceOpcode / scans to the mark
  IN
  IF f.st # "run" THEN f ELSE
  CASE op.o = "CONST" -> IF op.ty \in {"bytearray"} THEN FErr(f) ELSE push("const")      \* BYTEARRAY8 has no class: parse refuses
    [] op.o = "MARK"  -> push("mark")
    [] op.o \in {"PROTO", "FRAME"} -> f
    [] op.o = "POP"   -> IF n = 0 THEN FErr(f) ELSE [f EXCEPT !.stack = SubSeq(stk, 1, n - 1)]
    [] op.o = "POP_MARK" -> IF mi = 0 THEN FErr(f) ELSE [f EXCEPT !.stack = below]
    [] op.o = "DUP"   -> IF n = 0 THEN FErr(f) ELSE push(stk[n])
    [] op.o \in {"PUT", "MEMOIZE"} ->
         IF n = 0 THEN FErr(f)
         ELSE [f EXCEPT !.keys = @ \cup {IF op.o = "PUT" THEN op.a ELSE Cardinality(f.keys)}]
    [] op.o = "GET"   -> IF op.a \in f.keys THEN push("any") ELSE FErr(f)               \* kind of the memoised node is not tracked
    [] op.o \in {"GLOBAL"} -> push("name")
    [] op.o = "STACK_GLOBAL" -> popN(2, "name")
    [] op.o = "EMPTY_TUPLE" -> push("tuple")
    [] op.o = "TUPLE1" -> popN(1, "tuple")
    [] op.o = "TUPLE2" -> popN(2, "tuple")
    [] op.o = "TUPLE3" -> popN(3, "tuple")
    [] op.o = "TUPLE" -> slice("tuple")
    [] op.o = "EMPTY_LIST" -> push("list")
    [] op.o = "EMPTY_DICT" -> push("dict0")
    [] op.o = "EMPTY_SET"  -> push("set")
    [] op.o = "LIST"  -> slice("list")
    [] op.o = "DICT"  -> IF mi = 0 \/ (n - mi) % 2 = 1 THEN FErr(f) ELSE [f EXCEPT !.stack = Append(below, IF n = mi THEN "dict0" ELSE "dict")]
    [] op.o = "FROZENSET" -> slice("call")
    [] op.o = "APPEND" -> IF n < 2 THEN FErr(f)
                          ELSE IF stk[n - 1] \notin {"list", "any"} THEN FErr(f)         \* "Expected a list on the stack"
                          ELSE [f EXCEPT !.stack = SubSeq(stk, 1, n - 1)]
    [] op.o = "APPENDS" -> IF mi = 0 \/ mi < 2 THEN FErr(f)
                           ELSE IF stk[mi - 1] \notin {"list", "any"} THEN FErr(f)
                           ELSE [f EXCEPT !.stack = below]
    [] op.o = "SETITEM" -> IF n < 3 THEN FErr(f)
                           ELSE [f EXCEPT !.stack = Append(SubSeq(stk, 1, n - 3), IF stk[n - 2] = "dict0" THEN "dict" ELSE "name")]
    [] op.o = "SETITEMS" -> IF mi < 2 THEN FErr(f)
                            ELSE [f EXCEPT !.stack = Append(SubSeq(stk, 1, mi - 2),
                                                           IF stk[mi - 1] = "dict0" THEN (IF n = mi THEN "dict0" ELSE "dict") ELSE "name")]
    [] op.o = "ADDITEMS" -> IF mi < 2 THEN FErr(f)
                            ELSE IF stk[mi - 1] \notin {"set", "any"} THEN FErr(f)       \* "expected to be a set-like object"
                            ELSE [f EXCEPT !.stack = IF PinnedAddItems THEN SubSeq(stk, 1, mi - 2) ELSE below]
    [] op.o \in {"REDUCE", "NEWOBJ"} -> popN(2, "name")
    [] op.o = "NEWOBJ_EX" -> popN(3, "name")
    [] op.o = "OBJ"   -> IF mi = 0 \/ n = mi THEN FErr(f) ELSE [f EXCEPT !.stack = Append(below, "name")]
    [] op.o = "INST"  -> slice("name")
    [] op.o = "BUILD" -> popN(2, "name")
    [] op.o = "BINPERSID" -> popN(1, "name")
    [] op.o = "PERSID" -> FErr(f)                                                        \* no run(): NotImplementedError
    [] op.o = "STOP"  -> IF n = 0 THEN FErr(f) ELSE [f EXCEPT !.stack = SubSeq(stk, 1, n - 1), !.st = "stop"]
    [] OTHER -> FErr(f)

FProj(f) == [depth |-> Len(f.stack), marks |-> {i \in 1..Len(f.stack) : f.stack[i] = "mark"}, keys |-> f.keys]
=============================================================================
