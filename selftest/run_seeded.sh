#!/bin/bash
# selftest/run_seeded.sh <seeded id> [property ...]
# Apply seeded/<id>/patch.diff (or patch.rebased.diff) to a SCRATCH worktree of /repo's HEAD (never to /repo itself),
# run the quick checks of the given properties (default: the property the change was written for) against that copy
# through VERIF_REPO, and remove the worktree.
id=$1; shift; props=${@:-${id%%-*}}
wt=$(mktemp -d /tmp/verif_seedwt_XXXXXX); rmdir $wt
base=HEAD; [ -f /verif/seeded/$id/base ] && base=$(cat /verif/seeded/$id/base)     # a change written against an older commit that a later fix: commit made unapplicable
git -C /repo worktree add -q --detach $wt $base || exit 9
cleanup() { git -C /repo worktree remove --force $wt 2>/dev/null; git -C /repo worktree prune; }
trap cleanup EXIT
if git -C $wt apply --check /verif/seeded/$id/patch.diff 2>/dev/null; then git -C $wt apply /verif/seeded/$id/patch.diff
elif [ -f /verif/seeded/$id/patch.rebased.diff ] && git -C $wt apply --check /verif/seeded/$id/patch.rebased.diff 2>/dev/null; then git -C $wt apply /verif/seeded/$id/patch.rebased.diff
else echo "$id: patch does not apply to the current tree"; exit 8; fi
for p in $props; do
  out=$(cd /verif && VERIF_REPO=$wt ./check $p --tier quick 2>&1); rc=$?
  echo "seeded=$id check=$p rc=$rc :: $(echo "$out" | grep -E '^VIOLATION|MACHINERY' | head -2 | cut -c1-230)"
done
