#!/bin/bash
# selftest/run_seeded.sh <seeded id> [property ...]: apply seeded/<id>/patch.diff to /repo, run the quick
# checks of the given properties (default: the property the change was written for), undo the change.
id=$1; shift; props=${@:-${id%%-*}}
cd /repo || exit 9
if ! git apply --check /verif/seeded/$id/patch.diff 2>/dev/null; then
  if [ -f /verif/seeded/$id/patch.rebased.diff ] && git apply --check /verif/seeded/$id/patch.rebased.diff; then
    git apply /verif/seeded/$id/patch.rebased.diff
  else echo "$id: patch does not apply to the current tree"; exit 8; fi
else git apply /verif/seeded/$id/patch.diff; fi
for p in $props; do
  out=$(cd /verif && ./check $p --tier quick 2>&1); rc=$?
  echo "seeded=$id check=$p rc=$rc :: $(echo "$out" | grep -E '^VIOLATION|MACHINERY' | head -2 | cut -c1-230)"
done
git -C /repo checkout -- .
