#!/bin/bash
# selftest/run_benign.sh <benign id> [property ...]
# Apply benign/<id>/patch.diff (a property-PRESERVING change) to a scratch worktree of /repo's HEAD and run the quick checks
# against it through VERIF_REPO: every check must stay quiet (exit 0, no VIOLATION / MACHINERY line).
id=$1; shift; props=${@:-C01 C02 C03 C04 C05 C06 C07 C08 C09 C10 C11 C12 C13 C14 C15 C16 C17 C18 C19}
wt=$(mktemp -d /tmp/verif_benignwt_XXXXXX); rmdir $wt
base=HEAD; [ -f /verif/benign/$id/base ] && base=$(cat /verif/benign/$id/base)     # a change written against an older commit that a later fix: commit made unapplicable
git -C /repo worktree add -q --detach $wt $base || exit 9
cleanup() { git -C /repo worktree remove --force $wt 2>/dev/null; git -C /repo worktree prune; }
trap cleanup EXIT
if git -C $wt apply --check /verif/benign/$id/patch.diff 2>/dev/null; then git -C $wt apply /verif/benign/$id/patch.diff
elif [ -f /verif/benign/$id/patch.rebased.diff ] && git -C $wt apply --check /verif/benign/$id/patch.rebased.diff 2>/dev/null; then git -C $wt apply /verif/benign/$id/patch.rebased.diff
else echo "$id: patch does not apply"; exit 8; fi
for p in $props; do
  out=$(cd /verif && VERIF_REPO=$wt ./check $p --tier quick 2>&1); rc=$?
  echo "benign=$id check=$p rc=$rc :: $(echo "$out" | grep -E '^VIOLATION|MACHINERY|MODEL-DRIFT|Traceback' | head -3 | cut -c1-260 | tr '\n' '|')"
done
