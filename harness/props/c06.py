"""C06 - parse / re-serialise is byte-exact; stacked pickles partition the input."""
import io
import json
import os
import pickle
import struct

from .. import genvalues, tlc, tv
from ..core import finish
from .c02 import ASSUME as _unused  # noqa: F401

ASSUME = ["the end of the first pickle is cross-checked with where the stock C unpickler stops on the same bytes "
          "(disagreement = machinery failure)",
          "opcodes fickling does not support (FLOAT, BYTEARRAY8, EXT*, buffers, PERSID run) are excluded from the layouts; "
          "byte fidelity of each pickle's content is decided by the byte comparison, the model decides positions/partition"]


class NoSeek:
    def __init__(self, b):
        self._b = io.BytesIO(b)

    def read(self, n=-1):
        return self._b.read(n)

    def readline(self, n=-1):
        return self._b.readline(n)

    def readinto(self, b):
        return self._b.readinto(b)

    def seekable(self):
        return False

    def readable(self):
        return True


def members(rng):
    u = lambda n: b"X" + struct.pack("<I", n) + b"a" * n + b"."  # noqa: E731
    su = lambda n: b"\x8c" + bytes([n]) + b"b" * n + b"."  # noqa: E731
    bb = lambda n: b"B" + struct.pack("<I", n) + b"c" * n + b"."  # noqa: E731
    sb = lambda n: b"C" + bytes([n]) + b"d" * n + b"."  # noqa: E731
    def _t(code, fmt, text):      # length-prefixed text opcode + STOP
        raw = text.encode("utf-8", "surrogatepass")
        return code.encode("latin-1") + struct.pack(fmt, len(raw)) + raw + b"."
    def _f(announced, body):      # protocol 4 header + FRAME announcing `announced` bytes + the opcodes
        return b"\x80\x04\x95" + struct.pack("<Q", announced) + body
    nat_lo, nat_hi = [], []
    for d, tag in genvalues.natural_pickles(rng, 40):
        if "unsupported" in tag or len(d) > 20000:
            continue
        (nat_lo if d[:1] != b"\x80" or d[1] < 4 else nat_hi).append(d)
    return {
        "atom": [b"N.", b"].", b"}.", b"\x88.", b").", b"K\x07."],
        "p0text": [b"I01\n.", b"I00\n.", b"I007\n.", b"L123L\n.", b"L-5L\n.", b"S'abc'\n.", b'S"q\\"q"\n.', b"Vabc\\u00e9\n.",
                   b"I-12\n.", b"(lp0\nI1\naS'x'\np1\na.", b"(dp0\nVk\np1\nI1\ns."],
        "binlen0": [u(0), su(0), bb(0), sb(0), b"T\x00\x00\x00\x00.", b"U\x00."],
        "binlen255": [u(255), su(255), bb(255), sb(255), b"U\xff" + b"e" * 255 + b"."],
        "binlen256": [u(256), bb(256), b"T" + struct.pack("<i", 256) + b"f" * 256 + b"."],
        "binlen65536": [u(65535), u(65536), bb(65536)],
        "ints": [b"K\x00.", b"K\xff.", b"M\x00\x01.", b"M\xff\xff.", b"J\x00\x00\x00\x80.", b"J\xff\xff\xff\x7f.",
                 b"\x8a\x00.", b"\x8a\x01\x80.", b"\x8a\x08" + b"\xff" * 7 + b"\x7f.", b"\x8b\x02\x00\x00\x00\x00\x80.", b"G?\xf8\x00\x00\x00\x00\x00\x00.",
                 # floats whose value is special under comparison: NaN (quiet, negative, with a payload), infinities, -0.0
                 b"G\x7f\xf8\x00\x00\x00\x00\x00\x00.", b"G\xff\xf8\x00\x00\x00\x00\x00\x01.", b"G\x7f\xf0\x00\x00\x00\x00\x00\x00.",
                 b"G\x80\x00\x00\x00\x00\x00\x00\x00.", pickle.dumps([float("nan"), 1.5, {"k": float("nan")}], 2),
                 pickle.dumps((float("nan"), float("-inf")), 4)],
        "memo": [b"]q\x00h\x00.", b"]p7\ng7\n.", b"]r\x00\x01\x00\x00j\x00\x01\x00\x00.", b"\x80\x04]\x94h\x00.", b"(K\x01K\x022q\x050."],
        "globals": [b"cos\nsystem\n.", b"cpkg.sub\nf\n.", b"(K\x01imod\nCls\n.", b"\x80\x04\x8c\x02os\x8c\x06system\x93.",
                    b"c__builtin__\nset\n(]K\x01atR."],
        # one pickle holding two different SPELLINGS of equal arguments under the same opcode (each opcode keeps its own bytes)
        "spellings": [pickle.dumps([1, True, 0, False], 0), pickle.dumps({"a": True, "b": 1}, 0), b"(S'spam'\nS\"spam\"\nl.",
                      b"(\x8a\x01\x05\x8a\x02\x05\x00l.", b"(I01\nI1\nI001\nl.", b"(Vabc\nV\\u0061bc\nl."],
        "frames": [_f(4, b"K\x01\x85."), _f(2, b"K\x01\x85."), _f(0, b"K\x01\x85."),
                   _f(3, b"K\x01\x85") + b"\x95" + struct.pack("<Q", 1) + b"."],
        "frames_over": [_f(7, b"K\x01\x85."), _f(6, b"]\x94."), _f(12, b"\x8c\x03abc\x94.")],
        "natural_lo": nat_lo, "natural_hi": nat_hi,
        "nonascii": [_t("\x8c", "B", s_) for s_ in ("caf\u00e9", "\u4e2d\u6587", "\U0001f600!", "\u00e9" * 127, "z\u0301" * 60)]
                    + [_t("X", "<I", s_) for s_ in ("\u017elu\u0165ou\u010dk\u00fd", "\u20ac" * 300, "\ud800x")]
                    + [_t("\x8d", "<Q", "\u4e2d" * 5), b"U\x03\xe9\xff\x80.", b"T\x02\x00\x00\x00\xc3\xa9.", b"V\\u00e9\xe9\n.",
                       pickle.dumps(["caf\u00e9", {"\u4e2d": "\U0001f600"}], 2), pickle.dumps(("\u00e9\u00e8", "\u00e9\u00e8"), 4), pickle.dumps("\u00fc", 0)],
        "len8": [b"\x8d" + struct.pack("<Q", 3) + b"abc.", b"\x8e" + struct.pack("<Q", 0) + b".", b"\x8e" + struct.pack("<Q", 300) + b"g" * 300 + b".",
                 b"\x80\x04\x95" + struct.pack("<Q", 4) + b"K\x01\x85."],
    }


def stock_end(data):
    f = io.BytesIO(data)
    try:
        pickle.Unpickler(f, encoding="bytes").load()      # (8-bit strings with high bytes: do not decode)
    except Exception:  # noqa: BLE001 - the first pickle may name things that do not exist; use the pure-Python reader then
        from ..refvm import _Rec
        f = io.BytesIO(data)
        u = _Rec(f)
        try:
            u.load()
        except Exception:  # noqa: BLE001
            return -1
    return f.tell()


def run_case(fk, c, M, rng, idx):
    parts = [rng.choice(M[cl]) for cl in c["classes"]]
    trail = b"" if c["trail"] == "none" else (b"\xff\xfe some junk \x00" if c["trail"] == "junk" else rng.choice(M["natural_hi"] or M["binlen255"])[:-3])
    body = b"".join(parts) + trail
    data = b"\x00" * c["offset"] + body
    rec = {"id": idx, "kind": c["kind"], "offset": c["offset"], "widths": [len(p) for p in parts], "trail": c["trail"],
           "trail_w": len(trail), "stock_end": len(parts[0]) if c["classes"][0] == "frames_over" else stock_end(body),
           "case": c, "hex": body.hex()[:160]}
    if c["kind"] == "bytes":
        src = body
    elif c["kind"] == "bytearray":
        src = bytearray(body)
    elif c["kind"] in ("seekable", "file", "buffered"):
        if c["kind"] == "seekable":
            src = io.BytesIO(data)
        elif c["kind"] == "file":
            path = os.path.join(TMP[0], f"s{idx}.bin")
            with open(path, "wb") as fh:
                fh.write(data)
            src = open(path, "rb")
        else:
            src = io.BufferedReader(io.BytesIO(data))
        src.seek(c["offset"])
    else:
        raw = io.BytesIO(data)
        raw.seek(c["offset"])
        src = NoSeek(raw.read())
    first = {"ok": False, "dumps_len": -1, "dumps_is_slice": False, "pos_after": -1, "rest_len": -1, "rest_is_tail": False, "exc": ""}
    try:
        p = fk.Pickled.load(src)
        if c["kind"] == "bytearray":        # the caller re-uses its buffer (readinto idiom): the parsed pickle keeps its own bytes
            src[:] = bytes((b ^ 0x5A) for b in src)
        d = p.dumps()
        first.update(ok=True, dumps_len=len(d), dumps_is_slice=d == parts[0])
        if c["kind"] in ("seekable", "file", "buffered"):
            first["pos_after"] = src.tell()
        if c["kind"] not in ("bytes", "bytearray"):
            rest = src.read()
            first.update(rest_len=len(rest), rest_is_tail=rest == body[len(parts[0]):])
    except Exception as e:  # noqa: BLE001
        first["exc"] = type(e).__name__
    rec["first"] = first
    if c["kind"] == "file":
        src.close()
        os.remove(path)
    # the checked loader is a parse of the same stream: when it returns the first object, the stream is where the stock
    # unpickler would have left it (judged on seekable streams; nothing but LIKELY_SAFE data is ever loaded)
    ld = {"ran": False, "returned": False, "pos_after": -1, "rest_len": -1, "rest_is_tail": False, "exc": ""}
    if c["kind"] in ("seekable", "buffered"):
        import fickling
        s2 = io.BytesIO(data) if c["kind"] == "seekable" else io.BufferedReader(io.BytesIO(data))
        s2.seek(c["offset"])
        ld["ran"] = True
        try:
            fickling.load(s2)
            ld["returned"] = True
            ld["pos_after"] = s2.tell()
            rest = s2.read()
            ld.update(rest_len=len(rest), rest_is_tail=rest == body[len(parts[0]):])
        except Exception as e:  # noqa: BLE001 - refused or unloadable: nothing is claimed about the position
            ld["exc"] = type(e).__name__
    rec["loader"] = ld
    stack = {"ran": c["trail"] == "none", "ok": False, "n": -1, "part_lens": [], "parts_are_slices": False, "concat_is_input": False}
    if stack["ran"]:
        src2 = body if c["kind"] == "bytes" else bytearray(body) if c["kind"] == "bytearray" else (NoSeek(body) if c["kind"] == "nonseekable" else
                                                  (io.BufferedReader(io.BytesIO(body)) if c["kind"] == "buffered" else io.BytesIO(body)))
        try:
            sp = fk.StackedPickle.load(src2)
            if isinstance(src2, bytearray):
                src2[:] = bytes((b ^ 0x5A) for b in src2)      # buffer re-used by the caller after the stack was parsed
            ds = [q.dumps() for q in sp]
            stack.update(ok=True, n=len(ds), part_lens=[len(x) for x in ds], parts_are_slices=ds == parts, concat_is_input=b"".join(ds) == body)
        except Exception as e:  # noqa: BLE001
            stack["exc"] = type(e).__name__
    rec["stack"] = stack
    return rec


TMP = [None]


def run(ctx):
    import fickling.fickle as fk
    TMP[0] = ctx.tmp
    n = 2 if ctx.quick else 3
    cfg = open(os.path.join(tlc.SPEC, "Stream.cfg.tmpl")).read().replace("@N@", str(n))
    cases = tv.generate(ctx, "Stream", cfg, "CASE", workers=4, name=f"gen:Stream:k{n}")
    M = members(ctx.rng)
    recs = []
    reps = 1 if not ctx.quick else 1
    for c in cases:
        for _ in range(reps):
            recs.append(run_case(fk, c, M, ctx.rng, len(recs)))
    verdicts = tv.validate(ctx, "StreamTrace", recs, batch=30000)
    failures, mach, nontriv = [], [], set()
    for rec in recs:
        v = verdicts[rec["id"]]
        if len(rec["widths"]) > 1 or rec["trail"] != "none":
            nontriv.add(json.dumps(rec["case"], sort_keys=True) + rec["hex"][:40])
        if v["v"].startswith("MACHINERY"):
            mach.append(v["v"] + " hex=" + rec["hex"][:60])
        elif v["v"] != "ok":
            failures.append({"sig": f"{v['v']} [kind={rec['kind']}]", "detail": f"case={rec['case']} first={rec['first']} hex={rec['hex'][:60]}",
                             "replay_obj": {"property": "C06", "record": rec, "verdict": v}})
    samples = [{k: r[k] for k in r if k != "hex"} for r in recs[:: max(1, len(recs) // 4)][:4]]
    return finish(ctx, level="model_checking", failures=failures, evaluations=len(recs), distinct_nontrivial=len(nontriv),
                  rule=f"TLC enumerates every layout: 1..{n} pickles from 12 classes (protocol-0 text opcodes, length-prefixed opcodes at "
                       "0/255/256/65535/65536, integer extremes, 8-byte lengths, memo, globals, natural pickles below/at protocol 4+) x "
                       "trailing {none, junk, truncated pickle} x start offset {0, 7} x {bytes, seekable, non-seekable}; class members are "
                       "seeded; TLC validates positions, slices, remainders and the partition; non-trivial = more than one segment",
                  samples=samples, traces=len(recs), assumptions=ASSUME, machinery_errors=mach,
                  extra={"layouts": len(cases), "exhaustive": True})


def replay(ctx, path):
    import sys
    from ..core import generic_replay
    return generic_replay(ctx, sys.modules[__name__], path)
