"""C14 - edits through the sequence interface keep every derived view coherent."""
import json
import os
import pickle

from .. import genvalues, tlc, tv
from ..asm import assemble, const_op
from ..core import finish
from ..queries import ask
from ..tlc import MachineryError

VIEWS = ["source", "ast", "imports", "calls", "flags", "severity", "findings", "unused", "nonstd", "unsafe"]
ASSUME = ["a view is compared with the same view of Pickled(list(p)) built at that moment, through digests; "
          "an exception raised by a view is an answer (its class is compared)",
          "abstract edits of spec/Cache.tla are instantiated with concrete positions/opcodes drawn from a seeded menu"]


def menu(fk):
    return [lambda: fk.Int(7), lambda: fk.Pop(), lambda: fk.Global.create("os", "getpid"), lambda: fk.Mark(),
            lambda: fk.Tuple(), lambda: fk.Reduce(), lambda: fk.StackGlobal(), lambda: fk.ShortBinUnicode("os"),
            lambda: fk.Proto(4), lambda: fk.Memoize(), lambda: fk.Dup(), lambda: fk.EmptyDict(), lambda: fk.EmptyTuple(),
            lambda: fk.Global.create("verif_sink", "hit"), lambda: fk.Frame(0), lambda: fk.NoneOpcode(),
            lambda: fk.BinPut(3), lambda: fk.Build()]


def apply_edit(fk, p, e, rng):
    """instantiate one abstract edit of spec/Cache.tla on the real object"""
    M = menu(fk)
    op = lambda: rng.choice(M)()  # noqa: E731
    n = len(p)
    pos = rng.choice([0, 1, n // 2, max(0, n - 1), n]) if n else 0
    inb = min(pos, max(0, n - 1))
    if e == "insert":
        p.insert(pos if rng.random() < 0.7 else -1, op())
    elif e == "setitem" and n:
        p[inb] = op()
    elif e == "delitem" and n:
        del p[inb]
    elif e == "append":
        p.append(op())
    elif e == "extend":
        p.extend([op(), op()])
    elif e == "iadd":
        p += [op()]
    elif e == "pop" and n:
        p.pop() if rng.random() < 0.5 else p.pop(inb)
    elif e == "remove" and n:
        p.remove(p[inb])
    elif e == "reverse":
        p.reverse()
    elif e == "setslice" and n:
        p[inb:inb + 1] = [op(), op()]
    elif e == "delslice" and n:
        del p[inb:inb + 2]
    elif e == "clear_refill":
        ops = list(p)
        p.clear()
        p.extend(ops[:-1] + [fk.Int(1), fk.Pop()] + ops[-1:])
    elif e == "insert_python":
        p.insert_python("1+1", run_first=True, use_output_as_unpickle_result=rng.random() < 0.5)
    elif e == "insert_python_last":
        p.insert_python("2", module="verif_sink", attr="hit", run_first=False, use_output_as_unpickle_result=rng.random() < 0.5)
    elif e == "append_python":
        p.append_python("x", module="verif_sink", attr="hit", pop_result=rng.random() < 0.5)
    elif e == "insert_magic_int":
        p.insert_magic_int(0x1234, -1 if rng.random() < 0.5 else inb)
    elif e == "insert_function_call":
        p.insert_function_call_on_unpickled_object("def f(obj):\n    return obj", compile_code=rng.random() < 0.3)
    elif e == "insert_python_obj":
        p.insert_python_obj(inb, [1, "a", {"k": 2}])
    elif e == "setslice_reentrant":
        def keep():
            for o in list(p):
                _ = (p.has_import, list(p.properties.calls), len(list(p.unsafe_imports())))      # consults the pickle's own views
                if o.info.name != "MEMOIZE":
                    yield o
            yield fk.Global.create("os", "getpid")
            yield fk.Pop()
        ops = list(p)
        try:
            p[:] = keep()
        except Exception:  # noqa: BLE001 - a view may raise on a broken program: the edit is abandoned as a whole
            p[:] = ops
    elif e in ("extend_raises", "iadd_raises", "setslice_raises"):
        def gen():          # an iterable that fails after handing out some opcodes (e.g. a constant that cannot be encoded)
            yield op()
            yield fk.Global.create("os", "getpid")
            yield fk.Pop()
            raise LookupError("the iterable raises part-way")
        try:
            if e == "extend_raises":
                p.extend(gen())
            elif e == "iadd_raises":
                p += gen()
            else:
                p[inb:inb] = gen()
        except LookupError:
            pass
    else:
        p.insert(0, fk.Proto(2))          # edit not applicable on an empty list: still an edit


def record_hist(fk, data, hist, rng, hid):
    p0 = fk.Pickled.load(data)
    shared = list(p0)
    if hid % 3 == 2:
        # the sequence already holds opcodes the library constructed but cannot encode (what insert_python(0.5, ...) leaves
        # behind: BINFLOAT; a created BINPUT): every edit behind them meets the "no encoder" path of the bookkeeping
        shared[0:0] = [fk.BinFloat(0.5), fk.Pop(), fk.BinPut(9)] if hid % 2 else [fk.BinFloat(0.5), fk.Pop()]
    p = fk.Pickled(shared)          # the object that is edited
    sib = fk.Pickled(shared)        # a second object constructed from the very same list: must be unaffected
    sib_views = {v: ask(sib, v) for v in ("source", "flags", "severity")}
    try:
        sib_bytes = sib.dumps()     # noqa: F841
    except NotImplementedError:     # the base holds an opcode without an encoder
        sib_bytes = None            # noqa: F841
    steps = []
    for h in hist:
        if h in VIEWS:
            obj = ask(p, h)
            fresh = ask(fk.Pickled(list(p)), h)
            k, exc = "read", ""
        else:
            exc = ""
            try:
                apply_edit(fk, p, h, rng)
            except Exception as e:  # noqa: BLE001 - a helper may refuse (e.g. no STOP at the end)
                exc = type(e).__name__
            obj = fresh = ""
            k = "edit"
        cur = list(p)
        try:
            concat = p.dumps() == b"".join(o.data for o in cur) == fk.Pickled(cur).dumps() and len(p) == len(cur)
        except Exception:  # noqa: BLE001 - an opcode that cannot be encoded: both sides fail alike
            try:
                fk.Pickled(cur).dumps()
                concat = False
            except Exception:  # noqa: BLE001
                concat = True
        if concat and k == "edit":
            # the sibling: every view still equals a fresh object with ITS current opcode list, and its bytes
            # are the concatenation of its opcodes
            try:
                sl = list(sib)
                concat = sib.dumps() == b"".join(o.data for o in sl)
                if concat and any(ask(sib, v) != ask(fk.Pickled(list(sl)), v) for v in sib_views):
                    obj, fresh, k2 = "sibling-stale", "sibling-fresh", "read"
                    steps.append({"k": k, "name": h, "obj": "", "fresh": "", "concat": True, "exc": exc})
                    steps.append({"k": k2, "name": "sibling-view", "obj": obj, "fresh": fresh, "concat": True, "exc": ""})
                    continue
            except Exception:  # noqa: BLE001
                pass
        steps.append({"k": k, "name": h, "obj": obj, "fresh": fresh, "concat": bool(concat), "exc": exc})
    # beyond the property (recorded as an observation, never an alarm): does decompiling the edited object agree with
    # decompiling its own serialised bytes parsed again?
    commutes = "na"
    try:
        d = p.dumps()
        commutes = "yes" if ask(p, "source") == ask(fk.Pickled.load(d), "source") else "no"
    except Exception:  # noqa: BLE001 - not serialisable / not parsable: nothing to compare
        pass
    return {"id": hid, "hex": data.hex(), "hist": hist, "steps": steps, "commutes": commutes}


def bases(ctx, n):
    O = lambda n: {"o": n}  # noqa: E731,E741
    G = lambda m, a: {"o": "GLOBAL", "m": m, "n": a}  # noqa: E731
    K = const_op
    out = [assemble([G("os", "system"), O("MARK"), K("true"), O("TUPLE"), O("REDUCE"), O("STOP")]),
           assemble([{"o": "PROTO", "a": 4}, O("EMPTY_LIST"), O("MEMOIZE"), K(1), O("APPEND"), O("STOP")]),
           pickle.dumps({"a": [1, 2, (3, 4)], "b": {5, 6}}, 4), pickle.dumps([genvalues.verif_nat.Plain(a=1)], 2),
           pickle.dumps(genvalues.verif_nat.Reducer(1, 2), 3), pickle.dumps((1, "x", None), 0)]
    for d, t in genvalues.natural_pickles(ctx.rng, n):
        if len(d) < 1500 and "unsupported" not in t:      # the starting pickle must parse (no FLOAT / BYTEARRAY8 ...)
            out.append(d)
    return out


def design(ctx, maxlen):
    """TLC on the design model: as coded it must satisfy Coherent; the two mutated models must not"""
    tmpl = open(os.path.join(tlc.SPEC, "Cache.cfg.tmpl")).read()

    def cfg(reset, aav, emit, n):
        return (tmpl.replace("@MAXLEN@", str(n)).replace("@RESET@", reset).replace("@AAV@", aav)
                .replace("@EMIT@", "INVARIANT Emit\n" if emit else ""))
    for reset, aav, name in (("FALSE", "TRUE", "insert-keeps-caches"), ("TRUE", "FALSE", "assign-before-visit")):
        r = tlc.run("Cache", cfg(reset, aav, False, 4), workers=4, timeout=600)
        if r["ok"] or "Coherent is violated" not in r["error"]:
            raise MachineryError(f"negative model '{name}' was not refuted: the Coherent invariant has no teeth")
        ctx.notes.append(f"negative design model '{name}' refuted by TLC as expected")
    return tv.generate(ctx, "Cache", cfg("TRUE", "TRUE", True, maxlen), "HIST", workers=16, name=f"gen+design:Cache:len{maxlen}")


def run(ctx):
    import fickling.fickle as fk
    maxlen = 3 if ctx.quick else 4
    hists = design(ctx, maxlen)
    budget = 200000
    if len(hists) > budget:
        # the alphabet of edits grew with every round; the histories of full length are sampled (seeded), every shorter one is kept
        hists.sort(key=lambda h: (len(h), h))
        short = [h for h in hists if len(h) < maxlen]
        full = [h for h in hists if len(h) == maxlen]
        ctx.notes.append(f"{len(hists)} histories generated by TLC; all {len(short)} of length < {maxlen} and a seeded sample of "
                         f"{budget - len(short)} of the {len(full)} of length {maxlen} are replayed")
        hists = short + ctx.rng.sample(full, max(0, budget - len(short)))
    bs = bases(ctx, 6 if ctx.quick else 40)
    records = []
    per = 2 if ctx.quick else 2
    for i, h in enumerate(hists):
        for j in range(per):
            records.append(record_hist(fk, bs[(i * per + j) % len(bs)], h, ctx.rng, len(records)))
    # the program is read between an edit and a summary (a cache refilled by one view must not hide the staleness of another)
    summ = ["imports", "calls", "flags", "severity", "findings", "nonstd", "unsafe"]
    k = 0
    for e in ["insert", "setitem", "delitem", "append", "extend", "pop", "setslice", "insert_python", "append_python",
              "insert_magic_int", "insert_function_call", "insert_python_obj", "reverse", "remove", "iadd", "delslice",
              "insert_python_last", "clear_refill", "extend_raises", "iadd_raises", "setslice_raises", "setslice_reentrant"]:
        for v1 in summ:
            for mid in ("source", "ast"):
                v2 = summ[(k + 3) % len(summ)]
                k += 1
                records.append(record_hist(fk, bs[k % len(bs)], [v1, e, mid, v2, v1], ctx.rng, len(records)))
    # longer random histories
    alle = ["insert", "setitem", "delitem", "append", "extend", "iadd", "pop", "remove", "reverse", "setslice", "delslice",
            "clear_refill", "insert_python", "insert_python_last", "append_python", "insert_magic_int",
            "insert_function_call", "insert_python_obj", "extend_raises", "iadd_raises", "setslice_raises", "setslice_reentrant"]
    for k in range(300 if ctx.quick else 5000):
        h = []
        for _ in range(ctx.rng.randrange(4, 12)):
            h.append(ctx.rng.choice(alle) if ctx.rng.random() < 0.45 else ctx.rng.choice(VIEWS))
        h.append(ctx.rng.choice(VIEWS))
        records.append(record_hist(fk, ctx.rng.choice(bs), h, ctx.rng, len(records)))
    verdicts = tv.validate(ctx, "CacheTrace", records, batch=20000)
    failures, nontriv = [], set()
    for r in records:
        v = verdicts[r["id"]]
        reads_after_edit = any(s["k"] == "read" for s in r["steps"]) and any(s["k"] == "edit" for s in r["steps"])
        if reads_after_edit:
            nontriv.add((r["hex"], tuple(r["hist"])))
        if v["v"] != "accepted":
            st = r["steps"][v["n"] - 1]
            if "stale" in v["v"]:
                kind = "raises-differently" if (st["obj"].startswith("exc:") != st["fresh"].startswith("exc:")) else "differs"
                sig = f"stale view {kind} after {v['e']}" if kind == "differs" else "view " + kind + " from a fresh object (exception vs answer)"
            else:
                sig = "dumps not concatenation"
            failures.append({"sig": sig, "detail": v["v"] + f" hist={r['hist']} obj={st['obj']} fresh={st['fresh']} hex={r['hex'][:60]}",
                             "replay_obj": {"property": "C14", "record": r, "verdict": v}})
    nc = [r for r in records if r.get("commutes") == "no"]
    ctx.notes.append(f"observation outside the property: on {len(nc)} of {sum(1 for r in records if r.get('commutes') in ('yes', 'no'))} "
                     "edited objects the decompiled program differs from the decompilation of the object's own re-parsed bytes"
                     + (f" (e.g. history {nc[0]['hist']}: text constants injected by the helpers are held as bytes in the opcode "
                        "object and shown as b'...' until the bytes are parsed again)" if nc else ""))
    samples = [{"hist": r["hist"], "hex": r["hex"][:60], "steps": r["steps"][:3], "verdict": verdicts[r["id"]]}
               for r in records[:: max(1, len(records) // 4)][:4]]
    return finish(ctx, level="model_checking", failures=failures, evaluations=len(records), distinct_nontrivial=len(nontriv),
                  rule=f"TLC checks Coherent on the design model of the two caches (all histories of length {maxlen} over 22 "
                       "edit kinds x 10 views, validity chosen nondeterministically) and emits every history that ends with a "
                       "read after an edit; each is replayed on real Pickled objects with concrete positions/opcodes; plus "
                       "random histories of length 5-12; non-trivial = at least one read follows an edit; distinct by (bytes, history)",
                  samples=samples, traces=len(records), assumptions=ASSUME,
                  extra={"bases": len(bs), "histories": len(hists), "exhaustive": True})


def replay(ctx, path):
    import fickling.fickle as fk
    import random
    obj = json.load(open(path))
    r = obj["record"]
    bad = 0
    for seed in range(40):          # the instantiation of abstract edits is random: try several
        rec = record_hist(fk, bytes.fromhex(r["hex"]), r["hist"], random.Random(seed), r["id"])     # (the id selects the base variant)
        v = tv.validate(ctx, "CacheTrace", [rec])[r["id"]]
        if v["v"] != "accepted":
            print(f"VIOLATION property=C14 replay={path}   # {v['v']}")
            bad = 1
            break
    return bad
