"""C02 - checked load is fail-closed and loads exactly the bytes it analysed."""
import json
import os
import subprocess
import sys

from .. import tlc, tv
from ..core import finish, ROOT
from ..tlc import MachineryError

ASSUME = ["the stream changes 'between analysis and load': the child wraps pickle.load/loads and _pickle.load/loads before "
          "importing fickling, each wrapper swaps the stream's content to pickle B (a sink call) before delegating; when a JSON "
          "report path is given, opening it is a second swap point; a stream changing DURING the parse is out of scope",
          "'nothing resolved' is observed through pickle.find_class audit events and the sink log",
          "accepted severity: the explicit loader's threshold; the fixed default for the hook and the `with` form; either for a "
          "context manager constructed with an explicit threshold",
          "a loader that re-reads the stream through pickle.Unpickler objects (not the four functions) is not swapped: limit"]


def run(ctx):
    tmpl = open(os.path.join(tlc.SPEC, "Loader.cfg.tmpl")).read()
    rn = tlc.run("Loader", tmpl.replace("@REREAD@", "TRUE").replace("@EMIT@", ""), workers=4, timeout=600)
    if rn["ok"]:
        raise MachineryError("negative design model (loader re-reads the stream) was not refuted")
    ctx.notes.append("negative design model (re-read the stream for the real load) refuted by TLC as expected")
    cases = tv.generate(ctx, "Loader", tmpl.replace("@REREAD@", "FALSE").replace("@EMIT@", "INVARIANT Emit\n"), "CASE",
                        workers=4, name="design+gen:Loader")
    reps = 1 if ctx.quick else 3
    allc = []
    for r in range(reps):
        for c in cases:
            c2 = dict(c)
            c2["rot"] = r + ctx.seed
            allc.append(c2)
    ctx.rng.shuffle(allc)       # one process replays them all: neighbours are unrelated configurations (state kept across calls)
    pj, outp = os.path.join(ctx.tmp, "c02_in.json"), os.path.join(ctx.tmp, "c02_out.json")
    json.dump(allc, open(pj, "w"))
    env = dict(os.environ, PYTHONPATH=os.pathsep.join([ROOT] + ([os.environ["VERIF_REPO"]] if os.environ.get("VERIF_REPO") else [])))
    r = subprocess.run([sys.executable, "-m", "harness.c02child", pj, outp], cwd=ROOT, env=env, capture_output=True, text=True, timeout=3000)
    if r.returncode != 0:
        raise MachineryError("c02child failed: " + (r.stderr or r.stdout)[-800:])
    recs = json.load(open(outp))
    verdicts = tv.validate(ctx, "LoaderTrace", recs, batch=20000)
    failures, nontriv = [], set()
    for rec in recs:
        v = verdicts[rec["id"]]
        if rec["kind"] != "bytes" or rec["v"] not in (0,):
            nontriv.add((rec["arm"], rec["kind"], rec["t"], rec["fam"], rec["hex"]))
        if v["v"] != "ok":
            failures.append({"sig": f"{v['v']} [arm={rec['arm']} fam={rec['fam']}]",
                             "detail": json.dumps({k: rec[k] for k in rec if k != "hex"}) + " hex=" + rec["hex"][:60],
                             "replay_obj": {"property": "C02", "record": rec, "verdict": v}})
    samples = [recs[i] for i in range(0, len(recs), max(1, len(recs) // 5))][:5]
    return finish(ctx, level="model_checking", failures=failures, evaluations=len(recs), distinct_nontrivial=len(nontriv),
                  rule="TLC checks FailClosed on the design model of the loader with an environment that may swap the stream between "
                       "any two steps (the re-reading variant is refuted on every run) and emits every configuration: 5 ways of arming x "
                       "3 stream kinds x 6 thresholds x 10 families (5 verdict classes + 5 kinds of input on which analysis raises); each "
                       "is executed in a child with instrumented streams; non-trivial = a real stream, or a flagged / failing input",
                  samples=samples, traces=len(recs), assumptions=ASSUME, extra={"configurations": len(cases), "exhaustive": True})


def replay(ctx, path):
    import sys
    from ..core import generic_replay
    return generic_replay(ctx, sys.modules[__name__], path)
