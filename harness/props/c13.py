"""C13 - answers depend only on the bytes: deterministic, repeatable, no observer effect."""
import json
import os
import pickle
import subprocess
import sys

from .. import genvalues, tlc, tv
from ..asm import assemble, const_op
from ..core import finish, ROOT
from ..queries import QUERIES, ask

ASSUME = ["answers are compared through digests (sha1 of the unparsed text / an address-free structural walk of "
          "the AST / sorted finding triples); findings are compared as a set, as the property says",
          "fresh processes run with PYTHONHASHSEED 1 and a seeded value and receive only the bytes"]


def pool(ctx, n):
    import decimal
    import fractions
    O = lambda n: {"o": n}  # noqa: E731,E741
    G = lambda m, a: {"o": "GLOBAL", "m": m, "n": a}  # noqa: E731
    K = const_op
    hand = [
        [O("MARK"), K("k"), K(1), K("j"), K(2), O("DICT"), O("STOP")],                       # DICT opcode
        [O("MARK"), K("k"), K(1), O("DICT"), O("DUP"), O("TUPLE2"), O("STOP")],
        [G("os", "system"), O("MARK"), K("true"), O("TUPLE"), O("REDUCE"), O("STOP")],
        [G("builtins", "eval"), K("1"), O("TUPLE1"), O("REDUCE"), O("POP"), O("NONE") if False else K(None), O("STOP")],
        [G("verif_sink", "a"), O("EMPTY_TUPLE"), O("REDUCE"), G("verif_sink", "b"), O("EMPTY_TUPLE"), O("REDUCE"),
         G("verif_sink", "c"), O("EMPTY_TUPLE"), O("REDUCE"), O("POP"), O("POP"), O("STOP")],   # unused variables
        [O("EMPTY_SET"), O("MARK"), K(1), K(2), K(3), O("ADDITEMS"), O("STOP")],
        [O("MARK"), K(1), K("a"), O("FROZENSET"), O("STOP")],
        [{"o": "PROTO", "a": 2}, {"o": "PROTO", "a": 2}, K(1), O("STOP")],
        [G("collections", "OrderedDict"), O("EMPTY_TUPLE"), O("NEWOBJ"), O("EMPTY_DICT"), O("BUILD"), O("STOP")],
    ]
    # the same shapes at scale (many findings of one kind: anything that ranks, caps or batches results meets its threshold)
    many_unused = [{"o": "PROTO", "a": 2}]
    for _ in range(14):
        many_unused += [G("collections", "OrderedDict"), O("EMPTY_TUPLE"), O("REDUCE"), O("POP")]
    many_unused += [K(None), O("STOP")]
    many_imports = []
    for k in range(13):
        many_imports += [G("verif_sink", f"name{k}"), O("POP")]
    many_imports += [K(1), O("STOP")]
    many_calls = []
    for k in range(12):
        many_calls += [G("verif_sink", "hit"), K(k), O("TUPLE1"), O("REDUCE")]
    many_calls += [O("STOP")]
    hand += [many_unused, many_imports, many_calls]
    # sub-modules of the documented dangerous modules (rules that walk up the parents of a dotted module), twice in one
    # program and in two different programs of the pool
    hand += [[G("urllib.request", "urlopen"), O("POP"), G("urllib.request", "urlretrieve"), O("STOP")],
             [G("urllib.request", "urlopen"), K("http://x"), O("TUPLE1"), O("REDUCE"), O("STOP")],
             [G("os.path", "join"), K("a"), K("b"), O("TUPLE2"), O("REDUCE"), O("STOP")],
             [G("os.path", "exists"), O("STOP")],
             [G("torch.hub", "load"), O("STOP")], [G("torch.hub.x", "load"), O("POP"), G("torch.hub", "load"), O("STOP")]]
    out = [assemble(h) for h in hand]
    # pairs of DIFFERENT pickles that share a name (a stdlib attribute called like a builtin, then the builtin called): what
    # one pickle binds must not colour the analysis of another analysed later in the same process
    out += [b"cimportlib\n__import__\n.", b"c__builtin__\n__import__\n(Vos\ntR.", b"cfileinput\ninput\n.", b"c__builtin__\ninput\n(tR.",
            b"cverif_sink\nfrozenset\n.", pickle.dumps(frozenset({1, 2}), 4), pickle.dumps(frozenset({1, 2}), 2)]
    vals = [[decimal.Decimal("1.5"), decimal.Decimal("1.5")], [fractions.Fraction(1, 2)] * 3,
            {"a": {1, 2, 3}, "b": frozenset("xyz")}, {"k%d" % i: i for i in range(12)},
            [genvalues.verif_nat.Plain(a=1), genvalues.verif_nat.Plain(a=1), genvalues.verif_nat.Plain(a=1)],
            {genvalues.verif_nat.Plain(x=i) for i in range(4)}, bytearray(b"abc"), [complex(1, 2), bytearray(b"x")],
            [range(3), slice(1, 2)], [1.5, -0.0], [0.0, 2.5], {"z": -0.0, "o": [0.0, 1, True, 1.0]}]
    for v in vals:
        for proto in (0, 2, 4):
            out.append(pickle.dumps(v, protocol=proto))
    for data, _tag in genvalues.natural_pickles(ctx.rng, n):
        if len(data) < 4000:
            out.append(data)
    seen, uniq = set(), []
    for d in out:
        if d not in seen:
            seen.add(d)
            uniq.append(d)
    return uniq


def child_tables(ctx, datas):
    pj = os.path.join(ctx.tmp, "pool.json")
    json.dump([d.hex() for d in datas], open(pj, "w"))
    tables = {}
    procs = []
    for name, seed in (("fresh1", "1"), ("fresh2", str(2 + ctx.seed % 4000000000))):
        outp = os.path.join(ctx.tmp, f"ans_{name}.json")
        env = dict(os.environ, PYTHONHASHSEED=seed, PYTHONPATH=os.pathsep.join(
            [ROOT] + ([os.environ["VERIF_REPO"]] if os.environ.get("VERIF_REPO") else [])))
        procs.append((name, outp, subprocess.Popen([sys.executable, "-m", "harness.c13child", pj, outp] + (["reverse"] if name == "fresh2" else []),
                                                   cwd=ROOT, env=env, stdout=subprocess.PIPE, stderr=subprocess.STDOUT)))
    for name, outp, pr in procs:
        o, _ = pr.communicate(timeout=1200)
        if pr.returncode != 0:
            raise tlc.MachineryError(f"fresh-process child {name} failed: {o.decode()[-400:]}")
        tables[name] = json.load(open(outp))
    return tables


def replay_hist(data, hist, tables):
    from fickling.fickle import Pickled
    steps, where, nre = [], "obj0", 0
    try:
        p = Pickled.load(data)
    except Exception:  # noqa: BLE001
        return None
    for s in hist:
        if s == "reparse":
            nre += 1
            where = f"reparse{nre}"
            # a re-parsed copy of the same bytes: from the byte string, from a stream in which they sit behind other bytes,
            # or as the second member of a stack (where the bytes are found is not part of the bytes)
            if nre % 3 == 1:
                p = Pickled.load(data)
            elif nre % 3 == 2:
                import io
                st = io.BytesIO(b"\x00" * 7 + data + b"trailer")
                st.seek(7)
                p = Pickled.load(st)
            else:
                from fickling.fickle import StackedPickle
                p = StackedPickle.load(b"K\x01." + data)[1]
        elif s in ("fresh1", "fresh2"):
            where = s
        elif where in ("fresh1", "fresh2"):
            steps.append({"q": s, "a": tables[where][data.hex()][s], "w": where})
        else:
            steps.append({"q": s, "a": ask(p, s), "w": where})
    return steps


def run(ctx):
    maxlen = 3 if ctx.quick else 4
    cfg = open(os.path.join(tlc.SPEC, "Queries.cfg.tmpl")).read().replace("@MAXLEN@", str(maxlen))
    hists = tv.generate(ctx, "Queries", cfg, "HIST", name=f"gen:Queries:len{maxlen}")
    datas = pool(ctx, 12 if ctx.quick else 60)
    tables = child_tables(ctx, datas)
    records = []
    # every history on a rotating subset of the pool; every pool member gets every history in thorough
    per = 3 if ctx.quick else 6
    for i, h in enumerate(hists):
        for j in range(per):
            d = datas[(i * per + j) % len(datas)]
            st = replay_hist(d, h, tables)
            if st is not None:
                records.append({"id": len(records), "hex": d.hex(), "hist": h, "steps": st})
    # long mixed histories on every pool member (all queries twice, switches in between)
    qs = sorted(QUERIES)
    for d in datas:
        for k in range(2 if ctx.quick else 6):
            order = qs[:]
            ctx.rng.shuffle(order)
            h = order + ["reparse"] + order[::-1] + ["fresh1"] + order + ["fresh2"] + order + ["reparse"] + order
            st = replay_hist(d, h, tables)
            if st is not None:
                records.append({"id": len(records), "hex": d.hex(), "hist": h, "steps": st})
    verdicts = tv.validate(ctx, "QueriesTrace", records, batch=20000)
    failures, nontriv = [], set()
    for r in records:
        v = verdicts[r["id"]]
        if len({s["q"] for s in r["steps"]}) < len(r["steps"]) or any(s["w"] != "obj0" for s in r["steps"]):
            nontriv.add((r["hex"], tuple(r["hist"])))
        if v["v"] != "accepted":
            bad = r["steps"][v["n"] - 1] if 0 < v["n"] <= len(r["steps"]) else {"q": "?", "w": "?"}
            prev = r["steps"][v["n"] - 2]["q"] if v["n"] >= 2 else "-"
            kind = "cross-process" if bad["w"].startswith("fresh") else ("reparse" if bad["w"].startswith("reparse") else "same-object")
            failures.append({"sig": f"{bad['q']} changes ({kind})", "detail": v["v"] + f" hist={r['hist']} hex={r['hex'][:80]}",
                             "replay_obj": {"property": "C13", "record": r, "verdict": v, "previous_query": prev}})
    samples = [{"hist": r["hist"], "hex": r["hex"][:60], "steps": r["steps"][:4], "verdict": verdicts[r["id"]]} for r in records[:: max(1, len(records) // 4)][:4]]
    return finish(ctx, level="model_checking", failures=failures, evaluations=len(records),
                  distinct_nontrivial=len(nontriv),
                  rule=f"TLC enumerates every history of length {maxlen} over {len(QUERIES)} queries + reparse + 2 fresh-process switches "
                       "(spec/Queries.tla); each is replayed on pool pickles; plus long shuffled histories per pool pickle; "
                       "non-trivial = a query is repeated or asked on a re-parsed copy / in another process; distinct by (bytes, history)",
                  samples=samples, traces=len(records), assumptions=ASSUME,
                  extra={"pool_size": len(datas), "histories": len(hists), "exhaustive": True})


def replay(ctx, path):
    obj = json.load(open(path))
    r = obj["record"]
    data = bytes.fromhex(r["hex"])
    tables = child_tables(ctx, [data])
    st = replay_hist(data, r["hist"], tables)
    rec = {"id": 0, "hex": r["hex"], "hist": r["hist"], "steps": st}
    v = tv.validate(ctx, "QueriesTrace", [rec])[0]
    print(json.dumps(v))
    if v["v"] != "accepted":
        print(f"VIOLATION property=C13 replay={path}   # {v['v']}")
        return 1
    return 0
