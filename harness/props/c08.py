"""C08 - injection adds exactly one call and preserves the original pickle's behaviour."""
import hashlib
import json
import os
import pickle
import subprocess
import sys

from .. import genvalues, tlc, tv
from ..asm import OutOfDomain, assemble, disassemble
from ..core import finish, ROOT
from ..tlc import MachineryError

MODES = ["first_keep", "first_replace", "last_keep", "last_replace", "append_nopop", "append_pop",
         "magic_end", "magic_idx", "fn_plain", "fn_args", "fn_compiled", "num_first_keep", "num_append_pop",
         "obj_idx"]        # a python object built on the stack by insert_python_obj and discarded again: adds no call
NUMARGS = ("1e3", 8080, b"12", "payload")       # numeric-looking text / bytes must arrive as text / bytes
KEEPS = {"first_keep", "last_keep", "append_pop", "magic_end", "magic_idx", "num_first_keep", "num_append_pop", "obj_idx"}
FN = "def verif_fn(obj, *a):\n    import verif_sink\n    verif_sink.calls.append(('fn', a, {}))\n    return ['wrapped', obj]\n"
ASSUME = ["base pickles are clean (exactly one value on the VM stack at STOP); symbolic globals are instantiated with the "
          "logging sink (verif_sink.Thing) so that real loads are harmless",
          "the 'never rated LIKELY_SAFE' clause is applied to the call-injecting modes (the marker integer adds no call)",
          "real loads: _pickle.loads, _pickle.load on a BytesIO and on a peekable BufferedReader, and pickle._Unpickler when "
          "the rewritten pickle is unframed; results and sink calls are compared through digests"]


def _fnk():
    import marshal
    from ..asm import const_op
    return {"def": const_op(FN), "name": const_op("verif_fn"), "code": const_op(marshal.dumps(compile(FN, "<string>", "exec"))),
            "args": [const_op(7), const_op("x")]}


FNK = _fnk()


def dg(x):
    return hashlib.sha1(json.dumps(x, sort_keys=True, default=str).encode()).hexdigest()[:12]


STDCALLEES = {"operator.itemgetter": ("operator", "itemgetter"), "itertools.chain": ("itertools", "chain"),
              "collections.OrderedDict": ("collections", "OrderedDict"), "functools.partial": ("functools", "partial")}


def apply_mode(fk, p, mode, callee="sink"):
    kw = dict(module="verif_sink", attr="injected") if callee == "sink" else dict(zip(("module", "attr"), STDCALLEES[callee]))
    if mode == "first_keep":
        p.insert_python("payload", run_first=True, use_output_as_unpickle_result=False, **kw)
    elif mode == "first_replace":
        p.insert_python("payload", run_first=True, use_output_as_unpickle_result=True, **kw)
    elif mode == "last_keep":
        p.insert_python("payload", run_first=False, use_output_as_unpickle_result=False, **kw)
    elif mode == "last_replace":
        p.insert_python("payload", run_first=False, use_output_as_unpickle_result=True, **kw)
    elif mode == "append_nopop":
        p.append_python("payload", pop_result=False, **kw)
    elif mode == "append_pop":
        p.append_python("payload", pop_result=True, **kw)
    elif mode == "num_first_keep":
        p.insert_python(*NUMARGS, run_first=True, use_output_as_unpickle_result=False, **kw)
    elif mode == "num_append_pop":
        p.append_python(*NUMARGS, pop_result=True, **kw)
    elif mode == "magic_end":
        p.insert_magic_int(4660)
    elif mode == "magic_idx":
        i = 0
        while isinstance(p[i], (fk.Proto, fk.Frame)):
            i += 1
        p.insert_magic_int(4660, i)
    elif mode == "obj_idx":
        i = 0
        while isinstance(p[i], (fk.Proto, fk.Frame)):
            i += 1
        n = p.insert_python_obj(i, [1, "a", {"k": [2, b"x"]}])
        p.insert(i + n, fk.Pop())
    elif mode == "fn_plain":
        p.insert_function_call_on_unpickled_object(FN)
    elif mode == "fn_args":
        p.insert_function_call_on_unpickled_object(FN, constant_args=[7, "x"])
    elif mode == "fn_compiled":
        p.insert_function_call_on_unpickled_object(FN, compile_code=True)


def inst(prog):
    out = []
    for op in prog:
        op = dict(op)
        if op["o"] in ("GLOBAL", "INST") and op["m"] in ("M1", "M2"):
            op["m"], op["n"] = "verif_sink", "Thing"
        out.append(op)
    return out


def gen_bases(ctx, profile, maxlen):
    t = open(os.path.join(tlc.SPEC, "InjectGen.cfg.tmpl")).read()
    cfg = t.replace("@MAXLEN@", str(maxlen)).replace("@MODES@", "NoNopop").replace("@EMIT@", "INVARIANT Emit\n")
    return tv.generate(ctx, "MCI_" + profile, cfg, "BASE", workers=16, name=f"design+gen:MCI_{profile}:len{maxlen}", heap="10g")


def run(ctx):
    import fickling.fickle as fk
    from fickling.analysis import check_safety
    from ..rec_vm import sevnum
    import fickling.analysis as an
    maxlen = 5 if ctx.quick else 6
    bases = []
    for prof in ("calls", "memo", "headers"):
        progs = gen_bases(ctx, prof, maxlen)          # TLC also checks DesignInjOK on every clean base
        ctx.rng.shuffle(progs)
        for p in progs[: (500 if ctx.quick else 12000)]:
            ops = inst(p)
            bases.append((ops, assemble(ops, [ctx.rng.randrange(8) for _ in ops]), prof))
    nat = 0
    for data, tag in genvalues.natural_pickles(ctx.rng, 60 if ctx.quick else 1500):
        try:
            ops = disassemble(data)
        except OutOfDomain:
            continue
        if len(ops) <= 400 and "unsupported" not in tag:
            bases.append((ops, data, "natural"))
            nat += 1
    big = pickle.dumps([[i] for i in range(300)], 2)     # > 255 memo entries
    bases.append((disassemble(big), big, "natural"))
    # objects the pickler fills through APPEND(S) / SETITEM(S) on something a call created (deque, list and dict subclasses)
    import collections
    for obj in (collections.deque([1, 2]), genvalues.verif_nat.ListSub([1, "a"]), collections.OrderedDict(a=1, b=[2])):
        for proto in (2, 4):
            d = pickle.dumps(obj, proto)
            try:
                bases.append((disassemble(d), d, "natural-objcont"))
            except OutOfDomain:
                pass
    items, recs = [], []
    for ops, data, prof in bases:
        for mode in MODES:
            rec = {"id": len(recs), "base": ops, "mode": mode, "prof": prof, "fnk": FNK, "callee": "sink", "base_hex": data.hex(), "refused": False,
                   "new": [], "new_hex": "", "sev": -1, "keeps": mode in KEEPS,
                   "added": 0 if mode.startswith("magic") or mode == "obj_idx" else 1, "inj": dg(["injected", ["tuple", ["str", "'payload'"]], ["dict"]])
                   if not mode.startswith(("fn_", "num_")) else dg(["injected", ["tuple", ["str", "'1e3'"], ["int", "8080"], ["bytes", "b'12'"], ["str", "'payload'"]], ["dict"]])
                   if mode.startswith("num_") else dg(["fn", ["tuple"] + ([["int", "7"], ["str", "'x'"]] if mode == "fn_args" else []), ["dict"]]),
                   "base_loads": False, "bcalls": [], "bres": "", "injres": "", "runs": []}
            try:
                p = fk.Pickled.load(data)
                apply_mode(fk, p, mode)
                nb = p.dumps()
                rec["new_hex"] = nb.hex()
                rec["new"] = disassemble(nb)
                if mode == "fn_compiled":       # marshal output is not reproducible byte for byte (reference flags): take the
                    code = [o for o in rec["new"][len(ops) - 1:] if o["o"] == "CONST" and o.get("ty") == "bytes"]   # constant as emitted
                    if code:
                        rec["fnk"] = dict(FNK, code=code[0])
                try:
                    rec["sev"] = sevnum(an, check_safety(fk.Pickled.load(nb)).severity)
                except Exception:  # noqa: BLE001 - analysis failing on the rewritten pickle: not LIKELY_SAFE
                    rec["sev"] = 9
                items.append({"id": rec["id"], "base_hex": rec["base_hex"], "new_hex": rec["new_hex"],
                              "framed": any(o["o"] == "FRAME" for o in rec["new"]), "mode": mode})
            except Exception as e:  # noqa: BLE001 - the helper refused to build: not a violation
                rec["refused"] = True
                rec["why_refused"] = type(e).__name__
            recs.append(rec)
    # the callee dimension: the same helpers told to call a harmless standard-library callable that is on no deny list
    # (judged on the verdict clause only; nothing of these is loaded)
    std_bases = [b for b in bases if b[2] == "natural" or len(b[0]) <= 6][:: max(1, len(bases) // (25 if ctx.quick else 200))]
    for ops, data, prof in std_bases:
        for callee in STDCALLEES:
            for mode in ("first_keep", "first_replace", "last_keep", "last_replace", "append_nopop", "append_pop"):
                rec = {"id": len(recs), "base": ops, "mode": mode, "prof": prof, "fnk": FNK, "callee": callee, "base_hex": data.hex(),
                       "refused": False, "new": [], "new_hex": "", "sev": -1, "keeps": mode in KEEPS, "added": 1, "inj": "",
                       "base_loads": False, "bcalls": [], "bres": "", "injres": "", "runs": []}
                try:
                    p = fk.Pickled.load(data)
                    apply_mode(fk, p, mode, callee)
                    nb = p.dumps()
                    rec["new_hex"] = nb.hex()
                    try:
                        rec["sev"] = sevnum(an, check_safety(fk.Pickled.load(nb)).severity)
                    except Exception:  # noqa: BLE001
                        rec["sev"] = 9
                except Exception as e:  # noqa: BLE001
                    rec["refused"], rec["why_refused"] = True, type(e).__name__
                recs.append(rec)
    pj, outp = os.path.join(ctx.tmp, "c08_in.json"), os.path.join(ctx.tmp, "c08_out.json")
    json.dump(items, open(pj, "w"))
    env = dict(os.environ, PYTHONPATH=os.pathsep.join([ROOT] + ([os.environ["VERIF_REPO"]] if os.environ.get("VERIF_REPO") else [])))
    r = subprocess.run([sys.executable, "-m", "harness.c08child", pj, outp], cwd=ROOT, env=env, capture_output=True, text=True, timeout=3000)
    if r.returncode != 0:
        raise MachineryError("c08child failed: " + (r.stderr or r.stdout)[-600:])
    for o in json.load(open(outp)):
        recs[o["id"]].update({k: o[k] for k in ("base_loads", "bcalls", "bres", "injres", "runs")})
    verdicts = tv.validate(ctx, "InjectTrace", recs, batch=3000, par=5, workers=3)
    failures, nontriv, refused = [], set(), 0
    for rec in recs:
        v = verdicts[rec["id"]]
        if rec["refused"]:
            refused += 1
            if rec["callee"] == "sink":     # the property speaks of EVERY pickle ending in STOP: the helper may not refuse one
                failures.append({"sig": f"{rec['mode']}: the helper refuses a pickle that ends in STOP ({rec.get('why_refused', '?')})"
                                        + (" [base appends to / sets items on an object]" if rec["prof"] == "natural-objcont" else ""),
                                 "detail": f"base={' '.join(o['o'] for o in rec['base'][:14])} hex={rec['base_hex'][:60]}",
                                 "n": len(rec["base"]), "replay_obj": {"property": "C08", "record": rec, "verdict": v}})
            continue
        if rec["base_loads"] and (rec["bcalls"] or len(rec["base"]) >= 4):
            nontriv.add((rec["base_hex"], rec["mode"]))
        if v["drift"]:
            ctx.drift.append(f"helper output differs from the transcription in spec/Inject.tla: mode={rec['mode']} base={' '.join(o['o'] for o in rec['base'][:12])}")
        for face in ("spec", "real", "sev"):
            if v[face] != "ok":
                why = v[face]
                for n in ("c-loads", "c-load-stream", "c-load-peekable", "py"):
                    why = why.replace(" with " + n, "")
                runner = v[face].rsplit(" with ", 1)[1] if " with " in v[face] else ""
                failures.append({"sig": f"{rec['mode']}{'' if rec['callee'] == 'sink' else ' calling ' + rec['callee']}: {why}" + (f" [{runner}]" if runner else "") + (" (framed base)" if any(o['o'] == 'FRAME' for o in rec['base']) else ""),
                                 "detail": f"{face}: {v[face]}; base={' '.join(o['o'] for o in rec['base'][:14])} hex={rec['base_hex'][:60]} exc={[x.get('exc') for x in rec['runs'] if not x['ok']][:1]}",
                                 "n": len(rec["base"]), "replay_obj": {"property": "C08", "record": rec, "verdict": v}})
    failures.sort(key=lambda f: f["n"])
    samples = [{"base": [o["o"] for o in r_["base"]][:14], "mode": r_["mode"], "new": [o["o"] for o in r_["new"]][:24],
                "runs": [(x["name"], x["ok"]) for x in r_["runs"]], "verdict": verdicts[r_["id"]]} for r_ in recs[:: max(1, len(recs) // 4)][:4]]
    return finish(ctx, level="model_checking", failures=failures, evaluations=len(recs), distinct_nontrivial=len(nontriv),
                  rule=f"TLC checks InjOK on the transcription of the helpers for EVERY clean program of three profiles up to length "
                       f"{maxlen} and emits them as bases; a seeded sample of them plus natural pickles (instances, shared refs, >255 "
                       "memo entries, protocols 0-5) is rewritten by the REAL helpers in 14 modes (plus the callee dimension); the produced bytes are disassembled "
                       "and TLC evaluates InjWhy/FnWhy on them and validates the logged real loads; non-trivial = base loads and has "
                       "effects or >= 4 opcodes; distinct by (base bytes, mode)",
                  samples=samples, traces=len(recs), assumptions=ASSUME,
                  extra={"bases": len(bases), "natural_bases": nat, "helper_refused": refused, "exhaustive": False})


def replay(ctx, path):
    import sys
    from ..core import generic_replay
    return generic_replay(ctx, sys.modules[__name__], path)
