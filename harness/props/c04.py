"""C04 - detection floor: dangerous imports and calls are never rated LIKELY_SAFE."""
from .. import vmfamily


def clause(v, rec):
    if v["c04"] == "below-floor":
        return v["c04"] + f":floor={v['floor']}:sev={rec['fick']['chk']['sev']}"
    return v["c04"] if v["c04"].startswith("below-floor") else None


def design(ctx):
    """design model of the rule set: ModelVerdict >= Floor on every program of a concrete-vocabulary alphabet"""
    import os
    from .. import tlc
    from ..tlc import MachineryError
    t = open(os.path.join(tlc.SPEC, "AnalysisGen.cfg.tmpl")).read()
    n = 4 if ctx.quick else 5
    r = tlc.run("MCA_rules", t.replace("@POLL@", "FALSE").replace("@BCE@", "FALSE").replace("@DOT@", "FALSE").replace("@MAXLEN@", str(n)), workers=8, timeout=1800, heap="8g")
    ctx.add_tlc(f"design:Analysis>=Floor:len{n}", r)
    if not r["ok"]:
        ctx.drift.append("design model of the rule set does not dominate the floor: " + r["error"][:300].replace("\n", " "))
    for poll, bce, dot, name in (("TRUE", "FALSE", "FALSE", "BadCalls pollutes the de-duplication set"),
                                 ("FALSE", "TRUE", "FALSE", "BadCalls skips names bound by a standard-library import (io.open is the builtin)"),
                                 ("FALSE", "FALSE", "TRUE", "the exemption looks at the first component of a dotted callee (glob + os.system)")):
        rn = tlc.run("MCA_rules", t.replace("@POLL@", poll).replace("@BCE@", bce).replace("@DOT@", dot).replace("@MAXLEN@", "4"), workers=8, timeout=900)
        if rn["ok"]:
            raise MachineryError(f"negative design model ({name}) was not refuted")
        ctx.notes.append(f"negative design model ({name}) refuted by TLC as expected")


def run(ctx):
    design(ctx)
    return vmfamily.run_family(
        ctx, "C04", clause,
        nontrivial=lambda v, r: v["floor"] > 0 and r["fick"]["chk"]["ok"],
        rule="typed opcode programs enumerated by TLC, symbolic globals instantiated over the labelled vocabulary "
             "(builtins / dangerous / benign stdlib / non-stdlib), + natural pickles; non-trivial = the floor "
             "computed by the specification from the reference event log is above LIKELY_SAFE and a verdict exists",
        want=("dec", "chk"))


def replay(ctx, path):
    return vmfamily.replay(ctx, path, clause)
