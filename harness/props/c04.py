"""C04 - detection floor: dangerous imports and calls are never rated LIKELY_SAFE."""
from .. import vmfamily


def clause(v, rec):
    return v["c04"] + f":floor={v['floor']}:sev={rec['fick']['chk']['sev']}" if v["c04"] == "below-floor" else None


def run(ctx):
    return vmfamily.run_family(
        ctx, "C04", clause,
        nontrivial=lambda v, r: v["floor"] > 0 and r["fick"]["chk"]["ok"],
        rule="typed opcode programs enumerated by TLC, symbolic globals instantiated over the labelled vocabulary "
             "(builtins / dangerous / benign stdlib / non-stdlib), + natural pickles; non-trivial = the floor "
             "computed by the specification from the reference event log is above LIKELY_SAFE and a verdict exists",
        want=("dec", "chk"))


def replay(ctx, path):
    return vmfamily.replay(ctx, path, clause)
