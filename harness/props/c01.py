"""C01 - analysis is inert: inspecting a pickle never executes any part of it."""
import json
import os
import shutil
import subprocess
import sys
import tempfile

from .. import genvalues, tv, vmfamily
from ..asm import assemble
from ..core import finish, ROOT
from ..tlc import MachineryError

DANGEROUS = [("verif_sink", "hit"), ("verif_pkg.sub", "thing"), ("verif_pkg", "sub"), ("os", "system"), ("builtins", "eval"),
             ("builtins", "exec"), ("builtins", "compile"), ("builtins", "open"), ("subprocess", "Popen"), ("socket", "socket"),
             ("ctypes", "CDLL"), ("xml.dom.minidom", "parseString"), ("not_a_real_module", "f"), ("wsgiref.simple_server", "make_server"),
             ("verif_pkg.sub.deeper", "x"), ("marshal", "loads"), ("importlib", "import_module"), ("builtins", "__import__"),
             ("verif_sink", "lazy.attr"), ("os", "path.join"), ("concurrent.futures", "ThreadPoolExecutor.submit"),
             ("collections", "OrderedDict.fromkeys"),
             # sub-modules of installed third-party packages the ML features know about (not in the static allow-list, and
             # the package is not imported by an analysis process): importing the package is observable
             ("torch.nn.parameter", "Parameter"), ("torch.jit", "ScriptModule"), ("numpy.random", "RandomState"),
             ("numpy.lib.npyio", "load"),
             ("verif_lazy", "x")]      # registered in sys.modules by a LazyLoader, body not run yet (any attribute read runs it)
ASSUME = ["effects are observed through CPython audit events (import, exec, open, os.system/exec*/spawn/fork, subprocess.Popen, socket.*, "
          "ctypes.*, pickle.find_class, marshal.loads), a recording meta-path finder, a logging sink module, sys.modules and "
          "scratch-directory deltas; reading an attribute of an already imported real module without calling it is invisible",
          "lazy imports of fickling's own dependencies are excluded by a warm-up on benign inputs; a module counts as 'named by the "
          "input' when it or its top-level package appears in a GLOBAL/INST/STACK_GLOBAL of the input",
          "spawn / socket / ctypes events are recorded and refused by the sandbox hook"]


def named_of(ops):
    out = set()
    strs = []
    for o in ops:
        if o["o"] in ("GLOBAL", "INST"):
            out.add(o["m"])
        elif o["o"] == "CONST" and o.get("ty") == "str" and o.get("s"):
            strs.append(o["s"])
    out |= {s for s in strs if s and not s.startswith("#")}
    full = set()
    for m in out:
        parts = m.split(".")
        for i in range(1, len(parts) + 1):
            full.add(".".join(parts[:i]))
    return sorted(full - {"builtins", "__builtin__", "os", "sys", "marshal", "importlib", "importlib.util", "collections", "datetime"})


def corrupt(rng, data, ops):
    out = []
    for cut in sorted({1, len(data) // 2, len(data) - 1} | {rng.randrange(1, len(data)) for _ in range(2)} if len(data) > 2 else set()):
        out.append(data[:cut])
    b = bytearray(data)
    if b:
        i = rng.randrange(len(b))
        b[i] ^= 1 << rng.randrange(8)
        out.append(bytes(b))
        i = rng.randrange(len(b))
        b2 = bytearray(data)
        b2[i] = rng.choice(b"RobiQc\x81\x92\x93(.0")
        out.append(bytes(b2))
    if len(ops) > 2:   # token level: drop / duplicate / swap one opcode
        i = rng.randrange(len(ops) - 1)
        for variant in (ops[:i] + ops[i + 1:], ops[:i] + [ops[i]] + ops[i:], ops[:i] + [ops[i + 1], ops[i]] + ops[i + 2:]):
            try:
                out.append(assemble(variant))
            except Exception:  # noqa: BLE001
                pass
    return out


def trusted_names(scratch):
    """globals the library itself TRUSTS (its ML allow-list) whose package is not installed here: observable stand-in
    packages are written to a directory on the child's path, so importing or resolving one during an analysis is an event.
    Chosen at run time from the tree under verification (nothing is assumed about the list's contents)."""
    import importlib.util
    try:
        import fickling.ml as ml
        table = dict(ml.ML_ALLOWLIST)
    except Exception:  # noqa: BLE001
        return [], None
    root = os.path.join(scratch, "trusted_pkgs")
    out = []
    for mod in sorted(table):
        top = mod.split(".")[0]
        if top.startswith("_") or not all(part.isidentifier() for part in mod.split(".")):
            continue
        try:
            if importlib.util.find_spec(top) is not None:
                continue
        except Exception:  # noqa: BLE001
            continue
        names = [n for n in table[mod] if isinstance(n, str) and n.isidentifier()]
        if not names:
            continue
        parts = mod.split(".")
        for i in range(1, len(parts) + 1):          # packages down to the module, each logging its own import
            d = os.path.join(root, *parts[:i])
            leaf = i == len(parts)
            path = d + ".py" if leaf else os.path.join(d, "__init__.py")
            if leaf and os.path.isdir(d):
                path = os.path.join(d, "__init__.py")
            os.makedirs(os.path.dirname(path), exist_ok=True)
            if not os.path.exists(path):
                with open(path, "w") as f:
                    f.write("import verif_sink\nverif_sink.calls.append(('trusted-imported', (__name__,), {}))\n")
                    if leaf:
                        for n in names:
                            f.write(f"class {n}:\n    def __init__(self, *a, **k):\n        verif_sink.calls.append(('trusted-called', a, k))\n")
        out.append((mod, names[0]))
        if len(out) >= 3:
            break
    return out, (root if out else None)


def run(ctx):
    scratch = tempfile.mkdtemp(prefix="verif_c01_")
    trusted, extra_path = trusted_names(scratch)
    DANGEROUS.extend(t for t in trusted if t not in DANGEROUS)
    ctx.notes.append("globals the library trusts (allow-listed, not installed) given observable stand-ins: " + (", ".join(f"{m}.{n}" for m, n in trusted) or "none"))
    progs = vmfamily.generate(ctx, "calls", 4 if ctx.quick else 5)
    ctx.rng.shuffle(progs)
    progs = [p for p in progs if vmfamily.uses_symbols(p)][: (350 if ctx.quick else 6000)]
    inputs = []
    for i, p in enumerate(progs):
        v1 = DANGEROUS[i % len(DANGEROUS)]
        ops, var = vmfamily.instantiate(p, v1, ("verif_sink", "other"), ctx.rng)
        try:
            data = assemble(ops, var)
        except Exception:  # noqa: BLE001
            continue
        named = named_of(ops)
        inputs.append({"hex": data.hex(), "named": named, "tag": "program"})
        if i % 4 == 0:
            for c in corrupt(ctx.rng, data, ops):
                inputs.append({"hex": c.hex(), "named": named, "tag": "corrupted"})
    O = lambda n: {"o": n}  # noqa: E731,E741
    from ..asm import const_op as K
    for m, n in DANGEROUS:       # every vocabulary entry through every global-resolving / call-making opcode, always
        G = {"o": "GLOBAL", "m": m, "n": n}
        SG = [K(m), K(n), O("STACK_GLOBAL")]
        for ops in ([G, O("STOP")], SG + [O("STOP")], [O("MARK"), {"o": "INST", "m": m, "n": n}, O("STOP")],
                    [G, O("EMPTY_TUPLE"), O("REDUCE"), O("STOP")], SG + [O("EMPTY_TUPLE"), O("REDUCE"), O("STOP")],
                    [O("MARK"), G, K(1), O("OBJ"), O("STOP")], [G, O("EMPTY_TUPLE"), O("NEWOBJ"), O("STOP")],
                    SG + [O("EMPTY_TUPLE"), O("EMPTY_DICT"), O("NEWOBJ_EX"), O("EMPTY_DICT"), O("BUILD"), O("STOP")],
                    [{"o": "PROTO", "a": 4}] + SG + [O("MEMOIZE"), O("POP"), K(0), O("STOP")]):
            try:
                inputs.append({"hex": assemble(ops).hex(), "named": named_of(ops), "tag": "canonical"})
            except Exception:  # noqa: BLE001
                pass
    for codec in ("hz", "punycode", "uu_codec", "bz2_codec", "idna", "cp037", "utf_16", "rot_13", "zlib_codec"):
        for m, n in (("_codecs", "encode"), ("_codecs", "decode"), ("_codecs", "lookup"), ("codecs", "getencoder")):
            ops = [{"o": "GLOBAL", "m": m, "n": n}, O("MARK"), K("abc"), K(codec), O("TUPLE"), O("REDUCE"), O("STOP")]
            inputs.append({"hex": assemble(ops).hex(), "named": sorted(set(named_of(ops)) | {codec}), "tag": "codec"})
    for data, tag in genvalues.natural_pickles(ctx.rng, 40 if ctx.quick else 600):
        if len(data) < 5000:
            inputs.append({"hex": data.hex(), "named": ["verif_nat"], "tag": "natural"})
    try:
        pj, outp = os.path.join(ctx.tmp, "c01_in.json"), os.path.join(ctx.tmp, "c01_out.json")
        json.dump({"scratch": os.path.join(scratch, "work"), "inputs": inputs, "extra_path": extra_path}, open(pj, "w"))
        env = dict(os.environ, PYTHONPATH=os.pathsep.join([ROOT] + ([os.environ["VERIF_REPO"]] if os.environ.get("VERIF_REPO") else [])))
        r = subprocess.run([sys.executable, "-m", "harness.c01child", pj, outp], cwd=ROOT, env=env, capture_output=True, text=True, timeout=3000)
        if r.returncode != 0:
            raise MachineryError("c01child failed: " + (r.stderr or r.stdout)[-800:])
        recs = json.load(open(outp))
    finally:
        shutil.rmtree(scratch, ignore_errors=True)
    verdicts = tv.validate(ctx, "Inert", recs, batch=30000)
    failures, nontriv = [], set()
    for rec in recs:
        v = verdicts[rec["id"]]
        it = inputs[rec["input"]]
        if it["named"]:
            nontriv.add((it["hex"], rec["entry"]))
        if v["v"] != "accepted":
            e = rec["events"][v["n"] - 1]
            failures.append({"sig": f"{e['c']} during {rec['entry']}", "detail": v["v"] + f" input={it['tag']} hex={it['hex'][:80]} outcome={rec['outcome']}",
                             "replay_obj": {"property": "C01", "record": rec, "input": it, "verdict": v}})
    samples = [{"entry": r["entry"], "outcome": r["outcome"], "events": r["events"][:4], "hex": inputs[r["input"]]["hex"][:60]}
               for r in recs[:: max(1, len(recs) // 5)][:5]]
    return finish(ctx, level="model_checking", failures=failures, evaluations=len(recs), distinct_nontrivial=len(nontriv),
                  rule="TLC enumerates the typed opcode programs of profile `calls` (every global-resolving and call-making opcode); the "
                       "symbolic global is instantiated with 18 dangerous / not-yet-imported / non-existent / sink globals; token-level and "
                       "byte-level corruptions and natural pickles are added; every input goes through 13 analysis entry points (incl. every analysis on its own and the ML recipe) in a "
                       "sandboxed child under an audit hook and TLC validates each bracketed event trace against the alphabet of permitted "
                       "effects (spec/Inert.tla); non-trivial = the input names at least one module; distinct by (bytes, entry point)",
                  samples=samples, traces=len(recs), assumptions=ASSUME, extra={"inputs": len(inputs), "entry_points": 13})


def replay(ctx, path):
    import sys
    from ..core import generic_replay
    return generic_replay(ctx, sys.modules[__name__], path)
