"""C16 - PyTorch payload insertion changes only the model pickle and keeps the model."""
import json
import os
import shutil
import subprocess
import sys
import tempfile

from .. import tlc, tv
from ..core import finish, ROOT
from ..tlc import MachineryError

ASSUME = ["'the model pickle is the original with the injected call added' = byte equality with Pickled.insert_python_exec applied "
          "by the library to the original data.pkl (the semantics of that rewrite is C08's subject)",
          "model equality: same container shapes, same dtypes/shapes and torch.equal on every tensor; modules through state_dict",
          "the state space of real models is sampled from a seeded generator (7 kinds), not enumerated"]


def wrapper_table(ctx):
    """beyond the property: PyTorchModelWrapper.validate_file_format as a decision table (spec/WrapperRel.tla); every
    cell is replayed into the real method (identification stubbed with the cell's list); drift only, never an alarm"""
    cells = tv.generate(ctx, "Wrapper", open(os.path.join(tlc.SPEC, "Wrapper.cfg")).read(), "CASE", workers=4, name="design+gen:Wrapper")
    pj, outp = os.path.join(ctx.tmp, "wrapper_in.json"), os.path.join(ctx.tmp, "wrapper_out.json")
    json.dump(cells, open(pj, "w"))
    env = dict(os.environ, PYTHONPATH=os.pathsep.join([ROOT] + ([os.environ["VERIF_REPO"]] if os.environ.get("VERIF_REPO") else [])))
    r = subprocess.run([sys.executable, "-m", "harness.wrapperchild", pj, outp], cwd=ROOT, env=env, capture_output=True, text=True, timeout=600)
    if r.returncode != 0:
        ctx.drift.append("wrapper table: the replay child failed: " + (r.stderr or r.stdout)[-200:].replace("\n", " "))
        return
    recs = json.load(open(outp))
    verdicts = tv.validate(ctx, "WrapperTrace", recs)
    bad = {}
    for rec in recs:
        v = verdicts[rec["id"]]["v"]
        if v != "ok":
            bad.setdefault(v, []).append(rec)
    for v, rs in sorted(bad.items())[:5]:
        ctx.drift.append(f"wrapper table: {v} [{len(rs)} cell(s), e.g. formats={rs[0]['fs']} force={rs[0]['force']}]")
    ctx.notes.append(f"validate_file_format decision table (spec/WrapperRel.tla): {len(recs)} cells replayed into the real method, {sum(map(len, bad.values()))} disagree")


def run(ctx):
    wrapper_table(ctx)
    cases = tv.generate(ctx, "TorchZip", open(os.path.join(tlc.SPEC, "TorchZip.cfg")).read(), "CASE", workers=2, name="design+gen:TorchZip")
    scratch = tempfile.mkdtemp(prefix="verif_c16_")
    try:
        pj, outp = os.path.join(ctx.tmp, "c16_in.json"), os.path.join(ctx.tmp, "c16_out.json")
        json.dump({"scratch": scratch, "seed": ctx.seed, "reps": 1 if ctx.quick else 6, "cases": cases}, open(pj, "w"))
        env = dict(os.environ, PYTHONPATH=os.pathsep.join([ROOT] + ([os.environ["VERIF_REPO"]] if os.environ.get("VERIF_REPO") else [])))
        r = subprocess.run([sys.executable, "-m", "harness.c16child", pj, outp], cwd=scratch, env=env, capture_output=True, text=True, timeout=3000)
        if r.returncode != 0:
            raise MachineryError("c16child failed: " + (r.stderr or r.stdout)[-800:])
        recs = json.load(open(outp))
    finally:
        shutil.rmtree(scratch, ignore_errors=True)
    verdicts = tv.validate(ctx, "TorchZipTrace", recs, batch=30000)
    failures, nontriv = [], set()
    for rec in recs:
        v = verdicts[rec["id"]]
        nontriv.add(json.dumps(rec["case"], sort_keys=True) + str(len(rec["names_in"])))
        if v["v"] != "ok":
            failures.append({"sig": f"{v['v'].split(':')[0]} [kind={rec['case']['kind']} overwrite={rec['overwrite']}]",
                             "detail": v["v"] + " " + json.dumps({k: rec[k] for k in ('case', 'names_in', 'names_out', 'stray', 'exc')})[:260],
                             "replay_obj": {"property": "C16", "record": rec, "verdict": v}})
    samples = [{k: r_[k] for k in ("case", "names_in", "same", "ran", "model_equal", "stray")} for r_ in recs[:: max(1, len(recs) // 4)][:4]]
    return finish(ctx, level="exploration", failures=failures, evaluations=len(recs), distinct_nontrivial=len(nontriv),
                  rule="TLC enumerates the configurations (7 object kinds incl. zero-size tensors and shared storages x 4 payload classes x "
                       "overwrite) and checks the archive rewrite of the design model; each configuration is realised with seeded models "
                       "saved by torch.save, injected by PyTorchModelWrapper, compared member by member, and fully loaded with the payload a "
                       "sink call; TLC validates the recorded facts against TorchZipTrace; every case is non-trivial; distinct by "
                       "(configuration, archive size)",
                  samples=samples, traces=len(recs), assumptions=ASSUME, extra={"configurations": len(cases)})


def replay(ctx, path):
    import sys
    from ..core import generic_replay
    return generic_replay(ctx, sys.modules[__name__], path)
