"""C03 - no hidden execution: everything the VM would import or call is in the decompile."""
from .. import vmfamily


def clause(v, rec):
    return v["c03"] if v["c03"] not in ("ok", "na", "refused") else None


def run(ctx):
    return vmfamily.run_family(
        ctx, "C03", clause,
        nontrivial=lambda v, r: v["nev"] > 0 and r["fick"]["dec"]["ok"],
        rule="typed opcode programs enumerated by TLC + natural pickles; non-trivial = the reference VM "
             "performs at least one import/call/setstate/persid AND fickling decompiled the program; distinct by bytes",
        want=("dec",))


def replay(ctx, path):
    return vmfamily.replay(ctx, path, clause)
