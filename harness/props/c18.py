"""C18 - CLI on stacked pickles: injection is local, decompilation is one valid program."""
import ast
import contextlib
import io
import json
import os
import pickle
import subprocess
import sys

from .. import genvalues, refvm, tlc, tv
from ..asm import assemble, const_op
from ..core import finish, ROOT

CODE = "__import__('verif_sink').hit('CLI-MARK')"
ASSUME = ["the injected code is a harmless sink call with a unique marker; 'ran k times' counts sink calls carrying the marker "
          "when the i-th emitted pickle is loaded with the C unpickler",
          "the k-th emitted pickle is compared byte-for-byte with Pickled.insert_python_eval applied by the library to the k-th "
          "input pickle with the same flags (the semantics of that rewrite is C08's subject)",
          "stdin cases run `python -m fickling` in a subprocess; quick runs a seeded sample of them"]


def family(rng, fam):
    O = lambda n: {"o": n}  # noqa: E731,E741
    G = lambda m, a: {"o": "GLOBAL", "m": m, "n": a}  # noqa: E731
    K = const_op
    if fam == "plain":
        return pickle.dumps(rng.choice([[1, 2, 3], {"a": 1, "b": [2]}, ("x", 1.5), {1, 2}, "s" * 300,
                                        # text whose encoded length differs from its length in characters
                                        ["caf\u00e9", "\u4e2d\u6587"], {"\U0001f600": "\u00fc" * 200}, "\u20ac" * 300,
                                        # objects the framing pickler (protocol 4 / 5) writes OUTSIDE any frame (64 KiB and more)
                                        "x" * 70000, [1, b"y" * 66000, "tail"]]), rng.choice([2, 3, 4, 5]))
    if fam == "calls":
        return rng.choice([
            assemble([G("verif_sink", "other"), O("MARK"), K("base"), O("TUPLE"), O("REDUCE"), O("STOP")]),
            b"cverif_sink\nother\n(X\x05\x00\x00\x00b\xc3\xa4setR.",      # other('b\u00e4se')
            pickle.dumps(genvalues.verif_nat.Plain(a=[1, 2]), rng.choice([0, 2, 4])),
            assemble([G("collections", "OrderedDict"), O("EMPTY_TUPLE"), O("REDUCE"), G("collections", "OrderedDict"),
                      O("EMPTY_TUPLE"), O("REDUCE"), O("TUPLE2"), O("STOP")])])
    if fam == "memo":
        x = [1, 2]
        return pickle.dumps(rng.choice([[x, x, {"k": x}], [[i] for i in range(260)], {"a": (x, x)}]), rng.choice([0, 1, 2, 4]))
    if fam == "reinjected":      # a pickle that already went through two default-mode injections (same memo key written twice)
        import fickling.fickle as fk
        p = fk.Pickled.load(pickle.dumps([1, 2, {"k": 3}], rng.choice([2, 4])))
        p.insert_python_eval("0")
        p.insert_python_eval("0")
        return p.dumps()
    return rng.choice([b"N.", b"K\x07.", b"I01\n.", b"I42\n.", b"].", b"\x88."])


class _Keep(io.BytesIO):
    def close(self):        # the CLI closes its output file; keep the bytes readable
        pass


class Out:
    def __init__(self):
        self.buffer = _Keep()

    def write(self, s):
        self.buffer.write(s.encode() if isinstance(s, str) else s)

    def flush(self):
        pass

    def isatty(self):
        return False


def run_cli(ctx, argv, data, chan, idx):
    """-> (rc, stdout bytes)"""
    from fickling.cli import main
    if chan == "file":
        path = os.path.join(ctx.tmp, f"in{idx}.pkl")
        open(path, "wb").write(data)
        out = Out()
        old = sys.stdout
        sys.stdout = out
        try:
            with contextlib.redirect_stderr(io.StringIO()):
                try:
                    rc = main(["fickling"] + argv + [path])
                except SystemExit as e:
                    rc = e.code if isinstance(e.code, int) else 2
                except Exception:  # noqa: BLE001 - an exception that escapes main() ends the process with status 1
                    rc = 1
        finally:
            sys.stdout = old
        return int(rc or 0), out.buffer.getvalue()
    env = dict(os.environ, PYTHONPATH=os.pathsep.join(([os.environ["VERIF_REPO"]] if os.environ.get("VERIF_REPO") else []) + [ROOT]))
    r = subprocess.run([sys.executable, "-m", "fickling"] + argv, input=data, capture_output=True, env=env, timeout=120, cwd=ctx.tmp)
    return r.returncode, r.stdout


def split_stack(fk, data):
    try:
        return [p.dumps() for p in fk.StackedPickle.load(data)]
    except Exception:  # noqa: BLE001
        return []


def count_runs(data):
    import _pickle
    sys.path.insert(0, os.path.join(ROOT, "harness", "natmods"))
    import verif_sink
    del verif_sink.calls[:]
    try:
        _pickle.loads(data)
    except Exception:  # noqa: BLE001
        return -1
    return sum(1 for c in verif_sink.calls if len(c) > 1 and c[1] == ("CLI-MARK",))


def run(ctx):
    import fickling.fickle as fk
    sys.path.insert(0, os.path.join(ROOT, "harness", "natmods"))
    n = 3
    # beyond the property: the whole command line as a decision table (drift only, never an alarm)
    from .. import cliargs
    cliargs.run(ctx, sample=4000 if ctx.quick else None)
    cfg = open(os.path.join(tlc.SPEC, "Cli.cfg.tmpl")).read().replace("@N@", str(n))
    cases = tv.generate(ctx, "Cli", cfg, "CASE", workers=4, name=f"gen:Cli:n{n}")
    if ctx.quick:       # all stacks of 1-2, a seeded sample of the stacks of 3
        cases = [c for i, c in enumerate(cases) if c["n"] < 3 or (i + ctx.seed) % 12 == 0]
    recs = []
    stdin_budget = 40 if ctx.quick else 10 ** 9
    order = list(range(len(cases)))
    ctx.rng.shuffle(order)
    for ci in order:
        c = cases[ci]
        if c["chan"] == "stdin":
            if stdin_budget <= 0:
                continue
            stdin_budget -= 1
        parts = [family(ctx.rng, f) for f in c["fams"]]
        data = b"".join(parts)
        argv = ["--inject", CODE, "--inject-target", str(c["k"])] + (["--run-last"] if c["run_last"] else []) + (["--replace-result"] if c["replace"] else [])
        rc, out = run_cli(ctx, argv, data, c["chan"], len(recs))
        outs = split_stack(fk, out) if out else []
        same = [i < len(outs) and outs[i] == parts[i] for i in range(c["n"])]
        kth = False
        if c["k"] < c["n"] and c["k"] < len(outs):
            p = fk.Pickled.load(parts[c["k"]])
            try:
                p.insert_python_eval(CODE, run_first=not c["run_last"], use_output_as_unpickle_result=c["replace"])
                kth = p.dumps() == outs[c["k"]]
            except Exception:  # noqa: BLE001
                kth = False
        runs = [count_runs(outs[i]) if i < len(outs) else -1 for i in range(c["n"])]
        recs.append({"id": len(recs), "kind": "inject", "n": c["n"], "k": c["k"], "rc": rc, "out_n": len(outs), "out_len": len(out),
                     "same": same, "kth_is_lib": kth, "runs": runs, "case": c, "hex": data.hex()[:400]})
        # decompilation of the same stack (once per stack, for target 0 cases to limit work)
        if c["k"] == 0 and not c["run_last"] and not c["replace"]:
            rc2, out2 = run_cli(ctx, [], data, c["chan"], len(recs))
            src = out2.decode("utf-8", "replace")
            d = {"id": len(recs), "kind": "decompile", "n": c["n"], "rc": rc2, "compiles": False, "results": [], "vars": [], "vals": [],
                 "case": c, "hex": data.hex()[:400]}
            try:
                tree = ast.parse(src)
                d["compiles"] = True
                cur = []
                for st in tree.body:
                    if isinstance(st, ast.Assign) and isinstance(st.targets[0], ast.Name):
                        nm = st.targets[0].id
                        if nm.startswith("result"):
                            d["results"].append(nm)
                            d["vars"].append(sorted(set(cur)))
                            cur = []
                        else:
                            cur.append(nm)
                for i, part in enumerate(parts):
                    ref = refvm.run_ref(part)
                    dec = refvm.run_decompiled(src, result_name=f"result{i}")
                    has = bool(ref["ok"] and dec["ok"])
                    d["vals"].append({"has": has, "dec": dec.get("res", {"k": "mark"}) if has else {"k": "mark"},
                                      "ref": ref.get("res", {"k": "mark"}) if has else {"k": "mark"}})
            except SyntaxError:
                pass
            while len(d["vals"]) < c["n"]:
                d["vals"].append({"has": False, "dec": {"k": "mark"}, "ref": {"k": "mark"}})
            recs.append(d)
    verdicts = tv.validate(ctx, "CliTrace", recs, batch=20000)
    failures, nontriv = [], set()
    for r in recs:
        v = verdicts[r["id"]]
        if r["n"] >= 2:
            nontriv.add(json.dumps(r["case"], sort_keys=True) + r["kind"])
        if v["v"] != "ok":
            c = r["case"]
            failures.append({"sig": f"{r['kind']}: {v['v']}", "detail": f"case={c} rc={r['rc']} hex={r['hex'][:80]}",
                             "replay_obj": {"property": "C18", "record": r, "verdict": v}})
    samples = [{k: r[k] for k in r if k not in ("hex", "vals")} for r in recs[:: max(1, len(recs) // 4)][:4]]
    return finish(ctx, level="model_checking", failures=failures, evaluations=len(recs), distinct_nontrivial=len(nontriv),
                  rule=f"TLC enumerates every configuration n in 1..{n} x target 0..n x --run-last x --replace-result x (file|stdin) x "
                       "family per position (4 families incl. 2-opcode protocol-0 atoms); each runs the real CLI (in-process for files, "
                       "`python -m fickling` for stdin) and TLC validates locality/rc/emptiness and the decompiled program's result names, "
                       "variable disjointness and per-pickle values; non-trivial = stacks of >= 2 pickles",
                  samples=samples, traces=len(recs), assumptions=ASSUME, extra={"configurations": len(cases), "exhaustive": not ctx.quick})


def replay(ctx, path):
    import sys
    from ..core import generic_replay
    return generic_replay(ctx, sys.modules[__name__], path)
