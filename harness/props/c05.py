"""C05 - the decompiled program rebuilds the same value as the real pickle VM."""
from .. import vmfamily


def clause(v, rec):
    if v["c05"] in ("ok", "na", "refused", "na-cyclic"):
        return None
    if v["c05"] == "exec-failed":
        return "exec-failed:" + rec["fick"]["run"]["exc"].split(":")[0]
    return v["c05"]


def run(ctx):
    return vmfamily.run_family(
        ctx, "C05", clause,
        nontrivial=lambda v, r: r["fick"]["dec"]["ok"] and len(r["prog"]) >= 3,
        rule="typed opcode programs enumerated by TLC + natural pickles of generated values (plain data and "
             "instances, protocols 0-5); non-trivial = decompiled and at least 3 opcodes; distinct by bytes",
        want=("dec",))


def replay(ctx, path):
    return vmfamily.replay(ctx, path, clause)
