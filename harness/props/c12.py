"""C12 - hook lifecycle: protection holds while armed and is restored exactly on exit."""
import json
import os
import subprocess
import sys

from .. import tlc, tv
from ..core import finish, ROOT
from ..tlc import MachineryError

ASSUME = ["blocks[b] = a flagged probe (verif_sink.hit through REDUCE) via that entry point raises UnsafeFileError and "
          "the sink did not run; orig[b] = the binding is the function captured before fickling was imported",
          "readings: the global check and the context cover pickle.load only; construct+enter of a context is one "
          "step; where a global operation is issued inside an open context every reading of 'restores' is admitted "
          "(HooksProp!ExitSucc) and a history is rejected only if no reading admits the observations"]


def child(ctx, hists, name, procs=8):
    """replay in dedicated child processes (the histories are independent: chunks run in parallel)"""
    n = max(1, min(procs, len(hists) // 200 + 1))
    size = (len(hists) + n - 1) // n
    env = dict(os.environ, PYTHONPATH=os.pathsep.join([ROOT] + ([os.environ["VERIF_REPO"]] if os.environ.get("VERIF_REPO") else [])))
    jobs = []
    for k in range(n):
        part = hists[k * size:(k + 1) * size]
        if not part:
            continue
        pj, outp = os.path.join(ctx.tmp, f"{name}_{k}_in.json"), os.path.join(ctx.tmp, f"{name}_{k}_out.json")
        json.dump(part, open(pj, "w"))
        jobs.append((outp, subprocess.Popen([sys.executable, "-m", "harness.c12child", pj, outp], cwd=ROOT, env=env,
                                            stdout=subprocess.PIPE, stderr=subprocess.STDOUT, text=True)))
    out = []
    for outp, pr in jobs:
        o, _ = pr.communicate(timeout=6000)
        if pr.returncode != 0:
            raise MachineryError("c12child failed: " + (o or "")[-600:])
        out.extend(json.load(open(outp)))
        os.remove(outp)
    for i, r in enumerate(out):
        r["id"] = i
    return out


def cfg(maxlen, guard, emit, sae="TRUE"):
    t = open(os.path.join(tlc.SPEC, "Hooks.cfg.tmpl")).read()
    return t.replace("@MAXLEN@", str(maxlen)).replace("@GUARD@", guard).replace("@SAE@", sae).replace("@EMIT@", emit)


def run(ctx):
    # 0. beyond the property: the experimental import hook as a state machine (drift only, never an alarm)
    from .. import importhook
    importhook.run(ctx, sample=200 if ctx.quick else None)
    # 1. design model: all histories, unbounded (VIEW without the history variable); pinned code must be refuted
    r = tlc.run("Hooks", cfg(200, "TRUE", "VIEW View\n"), workers=4, timeout=900)
    ctx.add_tlc("design:Hooks:unbounded", r)
    if not r["ok"]:
        ctx.drift.append("design model of hook.py/context.py violates the property spec: " + r["error"][:300].replace("\n", " "))
    rn = tlc.run("Hooks", cfg(200, "FALSE", "VIEW View\n"), workers=4, timeout=900)
    if rn["ok"]:
        raise MachineryError("negative design model (pinned __exit__) was not refuted: the acceptance relation has no teeth")
    ctx.notes.append("negative design model (unguarded __exit__) refuted by TLC as expected")
    rn = tlc.run("Hooks", cfg(200, "TRUE", "VIEW View\n", sae="FALSE"), workers=4, timeout=900)
    if rn["ok"]:
        raise MachineryError("negative design model (binding remembered at construction, not at entry) was not refuted")
    ctx.notes.append("negative design model (manager remembers pickle.load when constructed) refuted by TLC as expected")
    # 2. histories
    maxlen = 5 if ctx.quick else 6
    hists = tv.generate(ctx, "Hooks", cfg(maxlen, "TRUE", "INVARIANT Emit\n"), "HIST", workers=16, name=f"gen:Hooks:len{maxlen}")
    if not ctx.quick:
        longer = tv.generate(ctx, "Hooks", cfg(12, "TRUE", "INVARIANT Emit\n"), "HIST", simulate=20000, depth=12, name="gen:Hooks:simulate12")
        hists += longer
    # all prefixes are validated step by step, so only maximal histories are replayed
    recs = child(ctx, hists, "h")
    verdicts = tv.validate(ctx, "HooksTrace", recs, batch=30000)
    failures, nontriv = [], set()
    for rec in recs:
        v = verdicts[rec["id"]]
        if any(o in rec["hist"] for o in ("exit", "exit_exc", "remove")):
            nontriv.add(tuple(rec["hist"]))
        if v["v"] != "accepted":
            pre = rec["hist"][: v["n"]]
            failures.append({"sig": "rejected prefix " + ",".join(pre), "detail": v["v"] + " probes=" + str(rec["steps"][v["n"] - 1]["probe"]),
                             "len": len(pre), "replay_obj": {"property": "C12", "hist": pre, "record": rec, "verdict": v}})
    # report minimal rejected prefixes only (a longer history with the same rejected prefix is the same case)
    seen, uniq = set(), []
    for f in sorted(failures, key=lambda f: f["len"]):
        if f["sig"] not in seen:
            seen.add(f["sig"])
            uniq.append(f)
    samples = [{"hist": r["hist"], "last": r["steps"][-1], "verdict": verdicts[r["id"]]} for r in recs[:: max(1, len(recs) // 4)][:4]]
    return finish(ctx, level="model_checking", failures=uniq, evaluations=len(recs), distinct_nontrivial=len(nontriv),
                  rule=f"TLC checks the acceptance relation on the design model for ALL histories (finite state space, contexts "
                       f"nested <= 3) and emits every history of length {maxlen} over {{arm, activate, activate+additions, remove, "
                       "enter, exit, exit-by-exception}; each is replayed on the real modules in a dedicated process with four "
                       "flagged probes after every step; non-trivial = contains an exit or a remove; distinct by history",
                  samples=samples, traces=len(recs), assumptions=ASSUME, extra={"histories": len(hists), "exhaustive": True})


def replay(ctx, path):
    obj = json.load(open(path))
    recs = child(ctx, [obj["hist"]] * 3, "r")      # (the position in the batch selects the direct-loader dimension: all three)
    vs = tv.validate(ctx, "HooksTrace", recs)
    bad = [k for k in range(3) if vs[k]["v"] != "accepted"]
    v = vs[bad[0]] if bad else vs[0]
    print(json.dumps({"verdict": v, "steps": recs[bad[0] if bad else 0]["steps"]}, indent=1))
    if v["v"] != "accepted":
        print(f"VIOLATION property=C12 replay={path}   # {v['v']}")
        return 1
    return 0
