"""C07 - the safe ML environment mediates every global, including in nested unpicklings."""
import json
import os
import subprocess
import sys

from .. import tlc, tv
from ..core import finish, ROOT
from ..tlc import MachineryError

ASSUME = ["resolution is observed through pickle.find_class audit events of ANY unpickler instance (the mediating unpickler raises "
          "before delegating, so a blocked global produces no event) and through the logging sink",
          "payloads are built before arming; nested levels are objects whose __reduce__ calls the wrapper on the serialised next "
          "level; torch containers are produced by torch.save (legacy and zip)",
          "which pickle-module object a library uses for an inner load is not assumed by the property spec: only the events count"]


def cfg(d, ch, emit):
    t = open(os.path.join(tlc.SPEC, "Nested.cfg.tmpl")).read()
    return t.replace("@D@", str(d)).replace("@CH@", ch).replace("@EMIT@", emit)


def run(ctx):
    d = 2 if ctx.quick else 3
    r = tlc.run("Nested", cfg(d, "TRUE", ""), workers=4, timeout=900)
    ctx.add_tlc("design:Nested", r)
    if not r["ok"]:
        ctx.drift.append("design model (Unpickler class rebound) violates MediatesAll: " + r["error"][:200].replace("\n", " "))
    rn = tlc.run("Nested", cfg(d, "FALSE", ""), workers=4, timeout=900)
    if rn["ok"]:
        raise MachineryError("negative design model (only the four functions hooked) was not refuted")
    ctx.notes.append("negative design model (pickle.Unpickler not rebound) refuted by TLC as expected")
    cases = tv.generate(ctx, "Nested", cfg(d, "TRUE", "INVARIANT Emit\n"), "CASE", workers=4, name=f"gen:Nested:depth{d}")
    # order matters for leaks between activations: for every chain, the permissive addition sets come first
    cases.sort(key=lambda c: (json.dumps(c["chain"]), c["inner"], c["entry"], c["adds"]))
    pj, outp = os.path.join(ctx.tmp, "c07_in.json"), os.path.join(ctx.tmp, "c07_out.json")
    json.dump(cases, open(pj, "w"))
    env = dict(os.environ, PYTHONPATH=os.pathsep.join([ROOT] + ([os.environ["VERIF_REPO"]] if os.environ.get("VERIF_REPO") else [])))
    r = subprocess.run([sys.executable, "-m", "harness.c07child", pj, outp], cwd=ROOT, env=env, capture_output=True, text=True, timeout=3000)
    if r.returncode != 0:
        raise MachineryError("c07child failed: " + (r.stderr or r.stdout)[-800:])
    recs = [x for x in json.load(open(outp)) if x["built"]]
    for i, x in enumerate(recs):
        x["id"] = i
    verdicts = tv.validate(ctx, "NestedTrace", recs, batch=30000)
    failures, mach, nontriv = [], [], set()
    for rec in recs:
        v = verdicts[rec["id"]]
        c = rec["case"]
        if c["chain"]:
            nontriv.add(json.dumps(c, sort_keys=True))
        if v["v"].startswith("MACHINERY"):
            mach.append(v["v"] + f" case={c} exc={rec['exc']}")
        elif v["v"] != "ok":
            inner_c = c["chain"][-1][1] if c["chain"] else "bare"
            via = [w for w, _ in c["chain"]]
            failures.append({"sig": f"unmediated inner load: container={inner_c} wrappers={'/'.join(sorted(set(via))) or '-'}" if "resolved" in v["v"] or "executed" in v["v"]
                             else f"{v['v'][:60]} container={inner_c}", "detail": v["v"] + f" case={c}",
                             "n": len(c["chain"]), "replay_obj": {"property": "C07", "record": rec, "verdict": v}})
    failures.sort(key=lambda f: f["n"])
    samples = [{"case": r_["case"], "out": r_["out"], "resolved": r_["resolved"][:4], "verdict": verdicts[r_["id"]]} for r_ in recs[:: max(1, len(recs) // 4)][:4]]
    return finish(ctx, level="model_checking", failures=failures, evaluations=len(recs), distinct_nontrivial=len(nontriv),
                  rule=f"TLC checks MediatesAll on the design model and emits every configuration: chains of 0..{d} levels over "
                       "{torch.storage._load_from_bytes, pickle.loads, _pickle.loads} with fitting containers {bare, legacy, zip} x innermost "
                       "global {allow-listed tensors, sink, dangerous-named} x 4 entry points x 3 addition sets; each is built with the "
                       "stock pickler / torch.save and loaded in a child under the active environment; non-trivial = at least one nested level",
                  samples=samples, traces=len(recs), assumptions=ASSUME, machinery_errors=mach,
                  extra={"configurations": len(cases), "exhaustive": not ctx.quick})


def replay(ctx, path):
    import sys
    from ..core import generic_replay
    return generic_replay(ctx, sys.modules[__name__], path)
