"""C19 - safety analysis is total on every pickle that decompiles."""
from .. import vmfamily


def clause(v, rec):
    return v["c19"] if v["c19"] not in ("ok", "na", "refused") else None


def run(ctx):
    return vmfamily.run_family(
        ctx, "C19", clause,
        nontrivial=lambda v, r: r["fick"]["dec"]["ok"] and v["nev"] > 0,
        rule="typed opcode programs enumerated by TLC over the labelled vocabulary incl. attribute names that "
             "rules special-case (eval, open, load, getitem, ...) + natural pickles; non-trivial = decompilable "
             "and at least one import/call event",
        want=("dec", "chk"))


def replay(ctx, path):
    return vmfamily.replay(ctx, path, clause)
