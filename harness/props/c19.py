"""C19 - safety analysis is total on every pickle that decompiles."""
import struct

from .. import rec_vm, tv, vmfamily

# global names outside the typed domain of the VM specification (they reach the analyses through the decompiled program's
# import statements and through the report): non-ASCII, a lone surrogate (the pickler writes names with surrogatepass),
# quotes, blanks, a newline, the empty name, a very long name
EXOTIC = ["Caf\udce9Model", "Ünïcode", "中文", "\U0001f600", "a b", "it's", 'q"q', "x\ny", "", "back\\slash",
          "n" * 300, "eval", "tab\tname"]
MODS = ["verif_sink", "os", "collections", "not_a_real_module", "m\udce9dule", "pkg.sub"]


def _u(s):
    raw = s.encode("utf-8", "surrogatepass")
    return (b"\x8c" + bytes([len(raw)]) if len(raw) < 256 else b"X" + struct.pack("<I", len(raw))) + raw


def exotic_pickles():
    out = []
    for m in MODS:
        for n in EXOTIC:
            sg = b"\x80\x04" + _u(m) + _u(n) + b"\x93"
            out.append(sg + b".")                                  # the global is the result
            out.append(sg + b")R.")                                # called
            out.append(sg + b"0K\x01.")                            # resolved and dropped
    return out


def cyclic_pickles():
    import pickle
    from ..genvalues import verif_nat
    l = []
    l.append(l)
    d = {}
    d["me"] = d
    return [pickle.dumps(verif_nat.Plain(a=l), 2), pickle.dumps(verif_nat.Plain(a=d), 4), b"]2aQ0N.", b"cos\ngetpid\n]2a\x85R0N.",
            pickle.dumps(l, 2), pickle.dumps([verif_nat.Plain(a=[l, d])], 3)]


def _alarm(*_a):
    raise TimeoutError("does not return")


def returns(first_id, limit=5, only=None):
    """every analysis of the default analyzer on its own, and the unused-variable query, on pickles whose call arguments are
    self-referential containers (the program is built; its text is not): each comes back, with an answer or an exception"""
    import signal
    import fickling.analysis as an
    from fickling.fickle import Interpreter, Pickled
    asks = [("Interpreter.unused_variables", lambda p: Interpreter(p).unused_variables())]
    for a in getattr(an.Analyzer.default_instance, "analyses", []) if hasattr(an.Analyzer, "default_instance") else []:
        asks.append((type(a).__name__, lambda p, a=a: an.check_safety(p, analyzer=an.Analyzer([type(a)()]))))
    recs = []
    for data in cyclic_pickles():
        for what, f in asks:
            if only and (data.hex(), what) != only:
                continue
            old = signal.signal(signal.SIGALRM, _alarm)
            signal.setitimer(signal.ITIMER_REAL, limit)
            returned = True
            try:
                f(Pickled.load(data))
            except TimeoutError:
                returned = False
            except BaseException:  # noqa: BLE001 - raising is coming back
                pass
            finally:
                signal.setitimer(signal.ITIMER_REAL, 0)
                signal.signal(signal.SIGALRM, old)
            recs.append({"id": first_id + len(recs), "kind": "returns", "hex": data.hex(), "what": what, "returned": returned})
    return recs


def exotic(ctx):
    """-> (failures, evaluations): C19's clauses on pickles with exotic global names, judged by TLC on spec/TotalTrace.tla"""
    recs = []
    for data in exotic_pickles():
        f = rec_vm.record_fick(data, want=("dec", "chk"))
        recs.append({"id": len(recs), "kind": "verdict", "hex": data.hex(), "dec_ok": bool(f["dec"]["ok"]), "chk": f["chk"]})
    recs += returns(len(recs))
    verdicts = tv.validate(ctx, "TotalTrace", recs)
    failures = []
    for r in recs:
        v = verdicts[r["id"]]["v"]
        if v not in ("ok", "na", "refused") and r["kind"] == "returns":
            failures.append({"clause": v, "opset": ["F:self-referential-argument"], "detail": "self-referential call argument hex=" + r["hex"][:100],
                             "replay_obj": {"property": "C19", "clause": v, "record": {"hex": r["hex"], "prog": [], "tag": "returns", "what": r["what"]}}})
        elif v not in ("ok", "na", "refused"):
            failures.append({"clause": v, "opset": ["F:exotic-global-name"], "detail": "exotic global name hex=" + r["hex"][:100],
                             "replay_obj": {"property": "C19", "clause": v, "record": {"hex": r["hex"], "prog": [], "tag": "exotic-name", "exotic": r}}})
    ctx.notes.append(f"pickles with global names outside the typed domain (non-ASCII, lone surrogate, quotes, blanks, newline, empty, long): "
                     f"{sum(1 for r in recs if r['kind'] == 'verdict')} judged by spec/TotalTrace.tla, {sum(1 for r in recs if r.get('dec_ok'))} decompile; "
                     f"{sum(1 for r in recs if r['kind'] == 'returns')} single-analysis questions about self-referential call arguments (each must come back); "
                     f"{len(failures)} violate")
    return failures, len(recs)


def clause(v, rec):
    return v["c19"] if v["c19"] not in ("ok", "na", "refused") else None


def run(ctx):
    return vmfamily.run_family(
        ctx, "C19", clause,
        nontrivial=lambda v, r: r["fick"]["dec"]["ok"] and v["nev"] > 0,
        rule="typed opcode programs enumerated by TLC over the labelled vocabulary incl. attribute names that "
             "rules special-case (eval, open, load, getitem, ...) + natural pickles + pickles with exotic global names "
             "(judged without the reference machine); non-trivial = decompilable and at least one import/call event",
        want=("dec", "chk"), pre=exotic)


def replay(ctx, path):
    import json
    obj = json.load(open(path))
    if obj.get("record", {}).get("tag") == "returns":
        r = obj["record"]
        rs = returns(0, only=(r["hex"], r["what"]))
        v = tv.validate(ctx, "TotalTrace", rs)[0]["v"] if rs else "ok"
        if v != "ok":
            print(f"VIOLATION property=C19 replay={path}   # {v}")
            return 1
        print("C19: replayed case now holds")
        return 0
    if obj.get("record", {}).get("tag") == "exotic-name":
        data = bytes.fromhex(obj["record"]["hex"])
        f = rec_vm.record_fick(data, want=("dec", "chk"))
        v = tv.validate(ctx, "TotalTrace", [{"id": 0, "kind": "verdict", "hex": data.hex(), "dec_ok": bool(f["dec"]["ok"]), "chk": f["chk"]}])[0]["v"]
        if v not in ("ok", "na", "refused"):
            print(f"VIOLATION property=C19 replay={path}   # {v}")
            return 1
        print("C19: replayed case now holds")
        return 0
    return vmfamily.replay(ctx, path, clause)
