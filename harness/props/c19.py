"""C19 - safety analysis is total on every pickle that decompiles."""
import struct

from .. import rec_vm, tv, vmfamily

# global names outside the typed domain of the VM specification (they reach the analyses through the decompiled program's
# import statements and through the report): non-ASCII, a lone surrogate (the pickler writes names with surrogatepass),
# quotes, blanks, a newline, the empty name, a very long name
EXOTIC = ["Caf\udce9Model", "Ünïcode", "中文", "\U0001f600", "a b", "it's", 'q"q', "x\ny", "", "back\\slash",
          "n" * 300, "eval", "tab\tname"]
MODS = ["verif_sink", "os", "collections", "not_a_real_module", "m\udce9dule", "pkg.sub"]


def _u(s):
    raw = s.encode("utf-8", "surrogatepass")
    return (b"\x8c" + bytes([len(raw)]) if len(raw) < 256 else b"X" + struct.pack("<I", len(raw))) + raw


def exotic_pickles():
    out = []
    for m in MODS:
        for n in EXOTIC:
            sg = b"\x80\x04" + _u(m) + _u(n) + b"\x93"
            out.append(sg + b".")                                  # the global is the result
            out.append(sg + b")R.")                                # called
            out.append(sg + b"0K\x01.")                            # resolved and dropped
    return out


def exotic(ctx):
    """-> (failures, evaluations): C19's clauses on pickles with exotic global names, judged by TLC on spec/TotalTrace.tla"""
    recs = []
    for data in exotic_pickles():
        f = rec_vm.record_fick(data, want=("dec", "chk"))
        recs.append({"id": len(recs), "hex": data.hex(), "dec_ok": bool(f["dec"]["ok"]), "chk": f["chk"]})
    verdicts = tv.validate(ctx, "TotalTrace", recs)
    failures = []
    for r in recs:
        v = verdicts[r["id"]]["v"]
        if v not in ("ok", "na", "refused"):
            failures.append({"clause": v, "opset": ["F:exotic-global-name"], "detail": "exotic global name hex=" + r["hex"][:100],
                             "replay_obj": {"property": "C19", "clause": v, "record": {"hex": r["hex"], "prog": [], "tag": "exotic-name", "exotic": r}}})
    ctx.notes.append(f"pickles with global names outside the typed domain (non-ASCII, lone surrogate, quotes, blanks, newline, empty, long): "
                     f"{len(recs)} judged by spec/TotalTrace.tla, {sum(1 for r in recs if r['dec_ok'])} decompile, {len(failures)} violate")
    return failures, len(recs)


def clause(v, rec):
    return v["c19"] if v["c19"] not in ("ok", "na", "refused") else None


def run(ctx):
    return vmfamily.run_family(
        ctx, "C19", clause,
        nontrivial=lambda v, r: r["fick"]["dec"]["ok"] and v["nev"] > 0,
        rule="typed opcode programs enumerated by TLC over the labelled vocabulary incl. attribute names that "
             "rules special-case (eval, open, load, getitem, ...) + natural pickles + pickles with exotic global names "
             "(judged without the reference machine); non-trivial = decompilable and at least one import/call event",
        want=("dec", "chk"), pre=exotic)


def replay(ctx, path):
    import json
    obj = json.load(open(path))
    if obj.get("record", {}).get("tag") == "exotic-name":
        data = bytes.fromhex(obj["record"]["hex"])
        f = rec_vm.record_fick(data, want=("dec", "chk"))
        v = tv.validate(ctx, "TotalTrace", [{"id": 0, "hex": data.hex(), "dec_ok": bool(f["dec"]["ok"]), "chk": f["chk"]}])[0]["v"]
        if v not in ("ok", "na", "refused"):
            print(f"VIOLATION property=C19 replay={path}   # {v}")
            return 1
        print("C19: replayed case now holds")
        return 0
    return vmfamily.replay(ctx, path, clause)
