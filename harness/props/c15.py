"""C15 - injected constants and constructed opcodes mean what was asked, or are refused."""
import contextlib
import io
import json
import os
import pickletools
import subprocess
import sys

from .. import tlc, tv
from ..core import finish, ROOT
from ..tlc import MachineryError
from .c18 import Out

ASSUME = ["outcomes: 'refused' = the helper or dumps() raised while building; 'same' = the sink in the unpickling process "
          "received a value with the same type and repr (deep, typed; -0.0 and 0.0 differ); anything else, including a "
          "pickle that builds but fails to load, is 'different'",
          "CLI --inject/--create are driven with code = repr(text) and --replace-result, so the text arrives as the result"]

REPS = {
    "bool": [True, False],
    "int_u8": [0, 1, 255], "int_u16": [256, 65535],
    "int_big": [65536, 2**31 - 1, 2**31, 2**32 - 1, 2**32, 2**63 - 1, 2**63, 2**64 + 7, 10**30],
    "int_neg": [-1, -255, -256, -65536, -2**31, -2**31 - 1, -2**63 - 1, -10**25],
    "int_huge": [10**5000, -(10**4400), 1 << 20000],        # more decimal digits than the interpreter converts to text
    "float_integral": [1.0, -0.0, 3.0, 1e300], "float_fractional": [1.5, -2.25, 1e-300],
    "float_inf": [float("inf"), float("-inf")], "float_nan": [float("nan")],
    "str_numeric": ["123", "-7", " 12 ", "1_000", "+5", "٣", "007"],
    "str_short": ["", "abc", "café", "中文", "\U0001f600", "it's", 'say "hi"', "back\\slash", "line\nbreak",
                  "tab\there", "\x00\x01", "\r\n", "\\u0041", "x" * 255,
                  "\u00e9" * 127 + "a", "\u4e2d" * 85],                       # exactly 255 encoded bytes
    "str_long": ["y" * 256, "€" * 300, "z" * 70000,
                 "\u4e2d" * 86, "\u00e9" * 128, "\U0001f600" * 64],             # at most 255 characters, more than 255 encoded bytes
    "str_layout": ["a = 1\n  \t\nb = 2\n", "  indented", "first\n    \nlast", "\tx\n\ty\n", "trailing  \n", "\n\n"],
    "bytes_numeric": [b"12", b" 7 ", b"-3"],
    "bytes_short": [b"", b"abc", b"\x00\xff", b"it's", b"\n", b"b" * 255], "bytes_long": [b"c" * 256, b"d" * 70000],
    "none": [None],
    "list": [[1, "a", [2, b"x"]], [True], ["123"], [1.5, [-1]], []],
    "dict": [{"k": 1, "j": [1.5]}, {"123": "v"}, {}, {"a": {"b": [b"12"]}}],
    "other": [(1, 2), {1}, 1 + 2j],
}
FN = "def verif_fn(obj, *a):\n    import verif_sink\n    verif_sink.calls.append(('fn', a, {}))\n    return obj\n"


def srep(v):
    """repr that also works for integers beyond the interpreter's int->str digit limit"""
    if isinstance(v, int) and not isinstance(v, bool) and v.bit_length() > 12000:
        return "int:hex:" + hex(v)[:24] + f"...({v.bit_length()} bits)"
    return repr(v)


def td(v):
    if isinstance(v, int) and not isinstance(v, bool) and v.bit_length() > 12000:
        import hashlib
        return ["int", "hex:" + hashlib.sha1(hex(v).encode()).hexdigest()]
    if isinstance(v, (list, tuple)):
        return [type(v).__name__] + [td(x) for x in v]
    if isinstance(v, dict):
        return ["dict"] + [[td(a), td(b)] for a, b in v.items()]
    return [type(v).__name__, repr(v)]


def build(fk, via, v, tmp, idx):
    """-> (bytes, mode) or raises"""
    p = fk.Pickled.load(b"N.")
    if via == "insert_python":
        p.insert_python(v, module="verif_sink", attr="recv")
    elif via == "insert_python_two":
        p.insert_python("first", v, module="verif_sink", attr="recv", run_first=False)
    elif via in ("insert_python_exec", "insert_python_eval"):
        if not isinstance(v, str):
            raise TypeError("the exec/eval helpers take source text")
        getattr(p, via)(v, run_first=(len(v) % 2 == 0))
        return p.dumps(), "builtin_arg"
    elif via in ("insert_python_framed", "insert_python_after_refusal"):
        import pickle as _p
        p = fk.Pickled.load(_p.dumps({"k": [1, 2]}, 4 + idx % 2))        # a framed target
        if via == "insert_python_after_refusal":
            try:                                     # the same object saw a refused attempt before (the caller went on)
                p.insert_python("ok", object(), module="verif_sink", attr="recv")
            except Exception:  # noqa: BLE001
                pass
        p.insert_python(v, module="verif_sink", attr="recv", run_first=bool(idx % 3))
    elif via == "append_python":
        p.append_python(v, module="verif_sink", attr="recv", pop_result=True)
    elif via == "constant_args":
        p.insert_function_call_on_unpickled_object(FN, constant_args=[v])
    elif via in ("cli_inject", "cli_create"):
        from fickling.cli import main
        out = Out()
        old = sys.stdout
        sys.stdout = out
        try:
            with contextlib.redirect_stderr(io.StringIO()):
                if via == "cli_inject":
                    path = os.path.join(tmp, f"n{idx}.pkl")
                    open(path, "wb").write(b"N.")
                    rc = main(["fickling", "--inject", repr(v), "--replace-result", path])
                else:
                    rc = main(["fickling", "--create", repr(v), "-"])
        finally:
            sys.stdout = old
        if rc:
            raise RuntimeError("cli rc")
        return out.buffer.getvalue(), "result"
    return p.dumps(), "args"


def opcode_cases(fk):
    """(class name, constructor thunk, intended argument or marker)"""
    C = fk.OPCODES_BY_NAME
    cases = []
    ints = [0, 1, 255, 256, 65535, 65536, -1, -128, 2**31 - 1, -2**31, 2**31, 10**30, 10**5000, -(1 << 20000)]
    strs = ["abc", "", "café", "a'b", 'q"q', "line\nbreak", "back\\slash", "中", "x" * 300]
    byts = [b"abc", b"", b"\x00\xff", b"y" * 300]
    for name, cls in sorted(C.items()):
        if issubclass(cls, fk.ConstantInt) or name in ("INT", "LONG"):
            for i in ints:
                cases.append((name, (lambda cls=cls, i=i: cls(i)), i))
        elif name in ("SHORT_BINUNICODE", "BINUNICODE", "BINUNICODE8", "STRING", "SHORT_BINSTRING", "BINSTRING"):
            for s in strs:
                cases.append((name, (lambda cls=cls, s=s: cls(s)), s))
        elif name == "UNICODE":
            for s in strs:
                cases.append((name, (lambda cls=cls, s=s: cls(s)), s))
                cases.append((name, (lambda cls=cls, s=s: cls(s.encode("utf-8"))), s))     # how the CLI constructs it
        elif name in ("SHORT_BINBYTES", "BINBYTES", "BINBYTES8"):
            for b in byts:
                cases.append((name, (lambda cls=cls, b=b: cls(b)), b))
        elif name == "BINFLOAT":
            for f in (1.5, -0.0):
                cases.append((name, (lambda cls=cls, f=f: cls(f)), f))
        elif name == "GLOBAL":
            cases.append((name, lambda: fk.Global.create("os", "system"), "os system"))
            cases.append((name, lambda: fk.Global.create("pkg.sub", "f"), "pkg.sub f"))
        elif name == "INST":
            cases.append((name, lambda: fk.Inst.create("m", "C"), "m C"))
        elif name in ("PUT", "BINPUT", "LONG_BINPUT"):
            for k in (0, 5, 255, 256, 321987):
                cases.append((name, (lambda cls=cls, k=k: cls(k)), k))
        elif name == "GET":
            for k in (0, 5, 321987):
                cases.append((name, (lambda k=k: fk.Get.create(k)), k))
        elif name in ("BINGET", "LONG_BINGET"):
            for k in (0, 5, 256):
                cases.append((name, (lambda cls=cls, k=k: cls(k)), k))
        elif name == "PROTO":
            for k in (0, 2, 4, 5):
                cases.append((name, (lambda k=k: fk.Proto.create(k)), k))
        elif name == "FRAME":
            cases.append((name, lambda: fk.Frame(0), 0))
        elif name == "PERSID":
            cases.append((name, lambda: fk.PersId("pid"), "pid"))
        else:
            cases.append((name, (lambda cls=cls: cls()), None))
    return cases


def run(ctx):
    import fickling.fickle as fk
    cells = {}
    for strict, hexfb in (("TRUE", "FALSE"), ("FALSE", "FALSE"), ("TRUE", "TRUE")):
        cfg = open(os.path.join(tlc.SPEC, "Const.cfg.tmpl")).read().replace("@STRICT@", strict).replace("@HEX@", hexfb)
        if strict == "FALSE" or hexfb == "TRUE":
            r = tlc.run("Const", cfg, workers=1, timeout=300)
            inv = "RoundTripInv" if strict == "FALSE" else "ReadBackInv"
            if r["ok"] or inv not in r["error"]:
                raise MachineryError(f"negative model (StrictInt={strict}, HexFallback={hexfb}) was not refuted by {inv}")
            ctx.notes.append(f"negative design model (StrictInt={strict}, HexFallback={hexfb}) refuted by TLC ({inv}) as expected")
        else:
            r = tlc.run("Const", cfg, workers=1, timeout=300)
            ctx.add_tlc("design:Const", r)
            if not r["ok"]:
                ctx.drift.append("design model of ConstantOpcode.new violates RoundTrip: " + r["error"][:200].replace("\n", " "))
            for ln in r["lines"]:
                tag, _m, js = tlc.payload(ln)
                if tag == "CELL":
                    cells[js["cls"]] = js
    recs, items = [], []
    vias = ["insert_python", "insert_python_two", "append_python", "constant_args", "insert_python_exec", "insert_python_eval",
            "insert_python_framed", "insert_python_after_refusal"]
    passes = [(cls, v) for cls, reps in REPS.items() for v in reps]
    for cls, v in passes + passes[::-1]:
        if True:
            for via in vias + (["cli_inject", "cli_create"] if isinstance(v, str) else []):
                rec = {"id": len(recs), "kind": "inject", "cls": cls, "via": via, "value": srep(v)[:60], "outcome": "", "detail": ""}
                try:
                    data, mode = build(fk, via, v, ctx.tmp, len(recs))
                    rec["hex"] = data.hex()[:300]
                    want = td(v) if mode == "result" else ([td("first"), td(v)] if via == "insert_python_two" else [td(v)])
                    rec["_want"] = want
                    try:        # the opcode objects the helper constructed: the standard disassembler must read what they encode to
                        list(pickletools.genops(data))
                    except Exception as e:  # noqa: BLE001
                        rec["_undis"] = type(e).__name__
                    items.append({"id": rec["id"], "hex": data.hex(), "mode": mode})
                except Exception as e:  # noqa: BLE001
                    rec["outcome"], rec["detail"] = "refused", type(e).__name__
                    # drift: the model predicted which opcode class new() picks
                recs.append(rec)
                if via == "append_python" and cls in cells and cells[cls]["chosen"] not in ("container",):
                    try:
                        got = fk.ConstantOpcode.new(v).info.name
                    except Exception:  # noqa: BLE001
                        got = "refused"
                    if got != cells[cls]["chosen"]:
                        ctx.drift.append(f"ConstantOpcode.new({srep(v):.30}) picked {got}, spec/Const.tla says {cells[cls]['chosen']}")
    pj, outp = os.path.join(ctx.tmp, "c15_in.json"), os.path.join(ctx.tmp, "c15_out.json")
    json.dump(items, open(pj, "w"))
    env = dict(os.environ, PYTHONPATH=os.pathsep.join([ROOT] + ([os.environ["VERIF_REPO"]] if os.environ.get("VERIF_REPO") else [])))
    r = subprocess.run([sys.executable, "-m", "harness.c15child", pj, outp], cwd=ROOT, env=env, capture_output=True, text=True, timeout=1200)
    if r.returncode != 0:
        raise MachineryError("c15child failed: " + (r.stderr or r.stdout)[-500:])
    for o in json.load(open(outp)):
        rec = recs[o["id"]]
        want = rec.pop("_want")
        undis = rec.pop("_undis", None)
        if undis:
            rec["outcome"], rec["detail"] = "different", f"sent {rec['value']}: the pickle that was built cannot be disassembled ({undis})"
        elif o["ok"] and json.loads(json.dumps(want)) == o["got"]:
            rec["outcome"] = "same"
        else:
            rec["outcome"] = "different"
            rec["detail"] = (f"sent {rec['value']} got {json.dumps(o['got'])[:80]}").replace('"', "'")
    # second half: opcode objects
    for name, thunk, intended in opcode_cases(fk):
        rec = {"id": len(recs), "kind": "encode", "cls": name, "via": "encode", "value": srep(intended)[:60], "outcome": "", "detail": ""}
        try:
            enc = thunk().encode()
        except Exception as e:  # noqa: BLE001
            rec["outcome"], rec["detail"] = "refused", type(e).__name__
            recs.append(rec)
            continue
        try:
            ops = list(pickletools.genops(enc + (b"" if name == "STOP" else b".")))
            info, arg, _pos = ops[0]
            okname = info.name == name
            if intended is None:
                okarg = arg is None
            elif isinstance(intended, bool) or type(arg) is not type(intended):
                okarg = type(arg) is type(intended) and arg == intended
            else:
                okarg = arg == intended
            nops = len(ops) == (1 if name == "STOP" else 2)
            rec["outcome"] = "same" if (okname and okarg and nops) else "different"
            if rec["outcome"] == "different":
                rec["detail"] = f"built from {srep(intended):.40} read back as {info.name} {srep(arg):.40}".replace('"', "'")
        except Exception as e:  # noqa: BLE001
            rec["outcome"], rec["detail"] = "different", f"built from {srep(intended):.40}: disassembler raises {type(e).__name__}".replace('"', "'")
        recs.append(rec)
    # third half: an opcode object built without stored bytes, whose bytes were already asked for (by an earlier dumps(), or by
    # any later insert, which sizes the enclosing frame), is given another argument: what is serialised afterwards is the new one
    def readback(enc, name):
        ops = list(pickletools.genops(enc + (b"" if name == "STOP" else b".")))
        return ops[0][0].name, ops[0][1]
    prev = {}
    for name, thunk, intended in opcode_cases(fk):
        if name in prev and intended is not None:
            th0, int0 = prev[name]
            try:
                plain = readback(thunk().encode(), name)
                if plain[0] != name or type(plain[1]) is not type(intended) or plain[1] != intended or int0 == intended:
                    raise ValueError("encoder itself is off for this value: the encode half reports it")
                op = th0()
                first = op.data
                holder = fk.Pickled([op, fk.Stop()])
                holder.dumps()
                op.arg = thunk().arg
                got = readback(holder.dumps()[:-1], name)
            except Exception:  # noqa: BLE001 - not applicable to this pair
                prev[name] = (thunk, intended)
                continue
            rec = {"id": len(recs), "kind": "encode", "cls": name, "via": "retarget", "value": srep(intended)[:60], "outcome": "", "detail": ""}
            same = got[0] == name and type(got[1]) is type(intended) and got[1] == intended
            rec["outcome"] = "same" if same else "different"
            if not same:
                rec["detail"] = f"argument changed from {srep(int0):.30} to {srep(intended):.30} after the bytes were read once: serialised as {got[0]} {srep(got[1]):.30}".replace('"', "'")
            recs.append(rec)
        prev[name] = (thunk, intended)
    for rec in recs:
        rec.pop("_want", None)
    verdicts = tv.validate(ctx, "ConstTrace", recs, batch=20000)
    failures, nontriv = [], set()
    for rec in recs:
        v = verdicts[rec["id"]]
        if rec["outcome"] != "refused":
            nontriv.add((rec["kind"], rec["cls"], rec["via"], rec["value"]))
        if v["v"] != "ok":
            failures.append({"sig": f"{rec['kind']}:{rec['cls']}" + (":" + rec["via"] if rec["kind"] == "inject" and rec["via"].startswith("cli") else ""),
                             "detail": v["v"][:240], "replay_obj": {"property": "C15", "record": rec, "verdict": v}})
    samples = [recs[i] for i in range(0, len(recs), max(1, len(recs) // 5))][:5]
    return finish(ctx, level="model_checking", failures=failures, evaluations=len(recs), distinct_nontrivial=len(nontriv),
                  rule="TLC evaluates RoundTrip on the transcription of ConstantOpcode.new for every value class (19 classes; the "
                       "pre-fix validator is refuted on every run) and emits the cells; several concrete representatives per class are "
                       "pushed through insert_python / append_python / constant_args / CLI --inject / --create, loaded in a child and "
                       "the received value compared (typed, deep); every constructible opcode class is encoded with representative "
                       "arguments and read back with pickletools; non-trivial = not refused; distinct by (kind, class, helper, value)",
                  samples=samples, traces=len(recs), assumptions=ASSUME, extra={"value_classes": len(REPS), "exhaustive": True})


def replay(ctx, path):
    import sys
    from ..core import generic_replay
    return generic_replay(ctx, sys.modules[__name__], path)
