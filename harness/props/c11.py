"""C11 - user allowlist additions do not outlive or leak beyond their activation."""
import json
import os
import subprocess
import sys

from .. import tlc, tv
from ..core import finish, ROOT
from ..tlc import MachineryError

ASSUME = ["probes are GLOBAL <module> <name> STOP pickles: permitted = the load returns, refused = UnsafeFileError",
          "vocabulary: one built-in member, a new member of an allow-listed module, two new modules, two never-added "
          "globals; the child verifies the vocabulary against the real ML_ALLOWLIST before replaying",
          "ML_ALLOWLIST is restored from a deep snapshot between histories (and the restore is verified)"]


def child(ctx, hists, name, procs=8):
    """replay in dedicated child processes (the histories are independent: chunks run in parallel)"""
    n = max(1, min(procs, len(hists) // 200 + 1))
    size = (len(hists) + n - 1) // n
    env = dict(os.environ, PYTHONPATH=os.pathsep.join([ROOT] + ([os.environ["VERIF_REPO"]] if os.environ.get("VERIF_REPO") else [])))
    jobs = []
    for k in range(n):
        part = hists[k * size:(k + 1) * size]
        if not part:
            continue
        pj, outp = os.path.join(ctx.tmp, f"{name}_{k}_in.json"), os.path.join(ctx.tmp, f"{name}_{k}_out.json")
        json.dump(part, open(pj, "w"))
        jobs.append((outp, subprocess.Popen([sys.executable, "-m", "harness.c11child", pj, outp], cwd=ROOT, env=env,
                                            stdout=subprocess.PIPE, stderr=subprocess.STDOUT, text=True)))
    out = []
    for outp, pr in jobs:
        o, _ = pr.communicate(timeout=6000)
        if pr.returncode != 0:
            raise MachineryError("c11child failed: " + (o or "")[-600:])
        out.extend(json.load(open(outp)))
        os.remove(outp)
    for i, r in enumerate(out):
        r["id"] = i
    return out


def cfg(maxlen, shallow, emit):
    t = open(os.path.join(tlc.SPEC, "MLEnv.cfg.tmpl")).read()
    return t.replace("@MAXLEN@", str(maxlen)).replace("@SHALLOW@", shallow).replace("@EMIT@", emit)


def run(ctx):
    r = tlc.run("MLEnv", cfg(100, "FALSE", "VIEW View\n"), workers=4, timeout=600)
    ctx.add_tlc("design:MLEnv:unbounded", r)
    if not r["ok"]:
        ctx.drift.append("design model of ml.py violates Exact/BaseFrozen: " + r["error"][:300].replace("\n", " "))
    rn = tlc.run("MLEnv", cfg(100, "TRUE", "VIEW View\n"), workers=4, timeout=600)
    if rn["ok"]:
        raise MachineryError("negative design model (shallow copy) was not refuted")
    ctx.notes.append("negative design model (shallow copy of the allowlist) refuted by TLC as expected")
    maxlen = 4 if ctx.quick else 5
    hists = tv.generate(ctx, "MLEnv", cfg(maxlen, "FALSE", "INVARIANT Emit\n"), "HIST", workers=16, name=f"gen:MLEnv:len{maxlen}")
    if not ctx.quick:
        hists += tv.generate(ctx, "MLEnv", cfg(10, "FALSE", "INVARIANT Emit\n"), "HIST", simulate=8000, depth=10, name="gen:MLEnv:simulate10")
    hists = [h for h in hists for _ in (0, 1)]          # each history with fresh lists and with lists edited in place
    recs = child(ctx, hists, "h")
    verdicts = tv.validate(ctx, "MLEnvTrace", recs, batch=30000)
    failures, nontriv, seen = [], set(), set()
    for rec in recs:
        v = verdicts[rec["id"]]
        if len([o for o in rec["hist"] if o.startswith("act") or o.startswith("con")]) >= 2:
            nontriv.add(tuple(rec["hist"]))
        if v["v"] != "accepted":
            pre = rec["hist"][: v["n"]]
            sig = "rejected prefix " + ",".join(pre)
            if sig not in seen:
                seen.add(sig)
                failures.append({"sig": sig, "detail": v["v"], "len": len(pre),
                                 "replay_obj": {"property": "C11", "hist": pre, "record": rec, "verdict": v}})
    failures.sort(key=lambda f: f["len"])
    samples = [{"hist": r["hist"], "last": r["steps"][-1], "verdict": verdicts[r["id"]]} for r in recs[:: max(1, len(recs) // 4)][:4]]
    return finish(ctx, level="model_checking", failures=failures, evaluations=len(recs), distinct_nontrivial=len(nontriv),
                  rule=f"TLC checks Exact/BaseFrozen/InstExact on the design model for all histories and emits every history of "
                       f"length {maxlen} over {{activate(A0..A3), deactivate, construct-unpickler(A0..A3)}}; each is replayed on the "
                       "real modules with 6 probed globals after every step through the active environment (rotating over the four "
                       "entry points), a fresh unpickler and the constructed one; non-trivial = at least two activations/constructions",
                  samples=samples, traces=len(recs), assumptions=ASSUME, extra={"histories": len(hists), "exhaustive": True})


def replay(ctx, path):
    obj = json.load(open(path))
    recs = child(ctx, [obj["hist"]], "r")
    v = tv.validate(ctx, "MLEnvTrace", recs)[0]
    print(json.dumps({"verdict": v, "steps": recs[0]["steps"]}, indent=1))
    if v["v"] != "accepted":
        print(f"VIOLATION property=C11 replay={path}   # {v['v']}")
        return 1
    return 0
