"""C10 - all faces of the safety check agree on the same per-pickle severity."""
import contextlib
import io
import json
import operator
import os
import pickle
import sys

from .. import genvalues, tlc, tv
from ..asm import assemble, const_op
from ..core import finish

ASSUME = ["is_likely_safe and the checked loader look at the first pickle of a file (their documented contract)",
          "family members are harmless when executed (plain data, sink, os.getpid, eval('1')); each severity class of a "
          "TLC-generated vector is instantiated with a seeded member of the pool that the library itself rates at that severity",
          "POSSIBLY_UNSAFE is not produced by any rule: it is covered by the order half only"]
OPS = {"lt": operator.lt, "le": operator.le, "gt": operator.gt, "ge": operator.ge, "eq": operator.eq, "ne": operator.ne}


def candidates(ctx):
    O = lambda n: {"o": n}  # noqa: E731,E741
    G = lambda m, a: {"o": "GLOBAL", "m": m, "n": a}  # noqa: E731
    K = const_op
    call = lambda m, n, *a: [G(m, n), O("MARK")] + [K(x) for x in a] + [O("TUPLE"), O("REDUCE")]  # noqa: E731
    out = [pickle.dumps(v, p) for v in ([1, 2, 3], {"a": (1, 2)}, "text", None, [[]], {"k": [1.5, b"x"]}) for p in (0, 2, 4)]
    out += [assemble(call("collections", "OrderedDict") + [O("POP"), K(1), O("STOP")]),
            assemble(call("datetime", "date", 2020, 1, 2) + [O("POP"), K("x"), O("STOP")]),
            assemble(call("verif_sink", "hit", "a") + [O("STOP")]),
            assemble(call("verif_sink", "hit", "a") + [O("POP"), K(None), O("STOP")]),
            assemble(call("os", "getpid") + [O("STOP")]),
            assemble([{"o": "PROTO", "a": 2}] + call("posix", "getpid") + [O("STOP")]),
            assemble(call("builtins", "eval", "1") + [O("STOP")]),
            assemble(call("builtins", "eval", "1+1") + [O("POP"), K(0), O("STOP")]),
            assemble(call("builtins", "len", "abc") + [O("STOP")]),
            assemble([{"o": "PROTO", "a": 2}, {"o": "PROTO", "a": 2}, K(1), O("STOP")]),
            pickle.dumps(genvalues.verif_nat.Plain(a=1), 2), pickle.dumps([genvalues.verif_nat.Plain(a=1)] * 2, 4)]
    return out


def FicklingContextManagerDefault():
    import fickling
    return fickling.check_safety()


def rank(an, sev):
    from ..rec_vm import sevnum
    return sevnum(an, sev)


def faces(ctx, datas, opt, an, fk, fickling, cli_main, idx, chan="path"):
    from fickling.exception import UnsafeFileError
    # two of three cases re-use one path (the faces are functions of the file's present content, whatever was there before)
    path = os.path.join(ctx.tmp, "model.pkl" if idx % 3 else f"f{idx}.pkl")
    with open(path, "wb") as f:
        for d in datas:
            f.write(d)
    rec = {"kind": "faces", "opt": opt, "chan": chan}
    with open(path, "rb") as f:
        sp = fk.StackedPickle.load(f)
    lib, maxfind, nfind = [], [], []
    for p in sp:
        r = an.check_safety(p)
        lib.append(rank(an, r.severity))
        fs = [rank(an, x.severity) for x in r.results]
        maxfind.append(max(fs) if fs else 0)
        nfind.append(len(fs))
    rec.update(lib=lib, maxfind=maxfind, nfind=nfind)
    rec["likely_safe"] = bool(fickling.is_likely_safe(path))
    loader = []
    order = [an.Severity.LIKELY_SAFE, an.Severity.POSSIBLY_UNSAFE, an.Severity.SUSPICIOUS, an.Severity.LIKELY_UNSAFE,
             an.Severity.LIKELY_OVERTLY_MALICIOUS, an.Severity.OVERTLY_MALICIOUS]
    for t, sev in enumerate(order):
        with open(path, "rb") as f:
            try:
                fickling.load(f, max_acceptable_severity=sev)
                loader.append({"t": t, "raised": False, "info": -1})
            except UnsafeFileError as e:
                name = e.info.get("severity") if isinstance(e.info, dict) else None
                loader.append({"t": t, "raised": True, "info": [s.name for s in order].index(name) if name in [s.name for s in order] else -2})
    rec["loader"] = loader
    # the same face with DEFAULT arguments, also after a hook / context life cycle ran in this process (what the checked
    # loader accepts by default is not something an earlier, closed context may have changed)
    if idx % 3 == 1:
        import fickling.hook as _hook
        from fickling.context import FicklingContextManager
        cm = FicklingContextManager(max_acceptable_severity=an.Severity.LIKELY_OVERTLY_MALICIOUS)
        cm.__enter__()
        _hook.remove_hook()
        cm.__exit__(None, None, None)
        _hook.remove_hook()
    elif idx % 3 == 2:
        with FicklingContextManagerDefault():
            pass
    import pickle as _pk
    real_loads = _pk.loads
    _pk.loads = lambda *a, **k: "NOT-EXECUTED"          # nothing is unpickled for this face
    try:
        with open(path, "rb") as f:
            try:
                fickling.load(f)
                rec["loader_default_raised"] = False
            except UnsafeFileError:
                rec["loader_default_raised"] = True
    finally:
        _pk.loads = real_loads
    cwd = os.getcwd()
    os.chdir(ctx.tmp)
    try:
        jp = os.path.join(ctx.tmp, f"r{idx}.json") if "json" in opt else os.path.join(ctx.tmp, "safety_results.json")
        if opt == "json_bad":
            jp = os.path.join(ctx.tmp, "no_such_directory", f"r{idx}.json")
        if os.path.exists(jp):
            os.remove(jp)
        argv = ["fickling", "--check-safety"] + ([path] if chan == "path" else ["-"] if idx % 2 else []) \
            + (["--json-output", jp] if "json" in opt else []) + (["--print-results"] if "print" in opt else [])
        old_stdin, feeder, rfd = sys.stdin, None, None
        if chan == "stdin":         # `fickling --check-safety < file`: a seekable buffered reader
            sys.stdin = io.TextIOWrapper(open(path, "rb"))
        elif chan == "pipe":        # `cat file | fickling --check-safety`: a real pipe (cannot seek)
            import threading
            rfd, wfd = os.pipe()

            def feed():
                with os.fdopen(wfd, "wb") as w:
                    try:
                        w.write(b"".join(datas))
                    except BrokenPipeError:
                        pass
            feeder = threading.Thread(target=feed)
            feeder.start()
            sys.stdin = io.TextIOWrapper(os.fdopen(rfd, "rb"))
        try:
            with contextlib.redirect_stdout(io.StringIO()), contextlib.redirect_stderr(io.StringIO()):
                try:
                    rec["cli_rc"] = int(cli_main(argv))
                except SystemExit as e:
                    rec["cli_rc"] = e.code if isinstance(e.code, int) else 2
                except OSError:         # an escaping exception ends the process with a non-zero status
                    rec["cli_rc"] = 1
        finally:
            if sys.stdin is not old_stdin:
                try:
                    sys.stdin.close()
                except Exception:  # noqa: BLE001
                    pass
            sys.stdin = old_stdin
            if feeder:
                feeder.join(10)
        docs, txt, pos = [], open(jp).read() if os.path.exists(jp) else "", 0
        dec = json.JSONDecoder()
        while pos < len(txt):
            while pos < len(txt) and txt[pos].isspace():
                pos += 1
            if pos >= len(txt):
                break
            d, pos = dec.raw_decode(txt, pos)
            docs.append(d)
        names = [s.name for s in order]
        rec["json"] = [names.index(d.get("severity")) if d.get("severity") in names else -1 for d in docs]
    finally:
        os.chdir(cwd)
    return rec


def run(ctx):
    sys.path.insert(0, os.path.join(os.path.dirname(os.path.dirname(os.path.abspath(__file__))), "natmods"))
    import fickling
    import fickling.analysis as an
    import fickling.fickle as fk
    from fickling.cli import main as cli_main
    n = 2 if ctx.quick else 3
    cfg = open(os.path.join(tlc.SPEC, "Faces.cfg.tmpl")).read().replace("@N@", str(n))
    cases = tv.generate(ctx, "Faces", cfg, "CASE", workers=4, name=f"gen:Faces:stack{n}")
    order = [an.Severity.LIKELY_SAFE, an.Severity.POSSIBLY_UNSAFE, an.Severity.SUSPICIOUS, an.Severity.LIKELY_UNSAFE,
             an.Severity.LIKELY_OVERTLY_MALICIOUS, an.Severity.OVERTLY_MALICIOUS]
    pool = {}
    for d in candidates(ctx):
        try:
            pool.setdefault(rank(an, an.check_safety(fk.Pickled.load(d)).severity), []).append(d)
        except Exception:  # noqa: BLE001
            continue
    recs, skipped = [], 0
    ctx.rng.shuffle(cases)       # neighbours on the re-used path differ in their severity vectors
    for c in cases:
        if c["kind"] == "cmp":
            a, b, op = c["cell"]
            recs.append({"id": len(recs), "kind": "cmp", "a": a, "b": b, "op": op, "res": bool(OPS[op](order[a], order[b]))})
        else:
            if any(s not in pool for s in c["vec"]):
                skipped += 1
                continue
            reps = 1 if ctx.quick else 2
            for _ in range(reps):
                datas = [ctx.rng.choice(pool[s]) for s in c["vec"]]
                r = faces(ctx, datas, c["opt"], an, fk, fickling, cli_main, len(recs), c.get("chan", "path"))
                r.update(id=len(recs), vec=c["vec"], hexes=[d.hex()[:80] for d in datas])
                recs.append(r)
    verdicts = tv.validate(ctx, "FacesTrace", recs, batch=20000)
    failures, nontriv = [], set()
    for r in recs:
        v = verdicts[r["id"]]
        if r["kind"] == "cmp" or len(r["lib"]) > 1 or r["lib"][0] > 0:
            nontriv.add(json.dumps([r.get("vec"), r.get("opt"), r.get("a"), r.get("b"), r.get("op"), r.get("hexes")]))
        if v["v"] != "ok":
            failures.append({"sig": v["v"] if r["kind"] == "cmp" else f"{v['v']} (vector {r['vec']})", "detail": json.dumps({k: r[k] for k in r if k not in ("hexes",)})[:300],
                             "replay_obj": {"property": "C10", "record": r, "verdict": v}})
    samples = [{k: r[k] for k in r if k != "hexes"} for r in recs[:: max(1, len(recs) // 4)][:4]]
    return finish(ctx, level="model_checking", failures=failures, evaluations=len(recs), distinct_nontrivial=len(nontriv),
                  rule=f"TLC enumerates all 36x6 comparison cells and all severity vectors of 1..{n} stacked pickles over the reachable "
                       "severities x 4 CLI option sets x 3 channels (path, redirected stdin, pipe) (spec/Faces.tla); every vector is instantiated with pool pickles the library rates "
                       "at those severities and all faces are recorded on the real file; non-trivial = a comparison cell, or a stack of "
                       ">= 2 pickles, or a flagged first pickle",
                  samples=samples, traces=len(recs), assumptions=ASSUME,
                  extra={"pool": {str(k): len(v) for k, v in pool.items()}, "vectors_skipped_unreachable": skipped, "exhaustive": True})


def replay(ctx, path):
    import sys
    from ..core import generic_replay
    return generic_replay(ctx, sys.modules[__name__], path)
