"""C17 - format identification follows the documented table and is read-only; polyglot creation is clean."""
import json
import os
import shutil
import subprocess
import sys
import tempfile

from .. import tlc, tv
from ..core import finish, ROOT
from ..tlc import MachineryError

ASSUME = ["TorchAccepts(file) = torch._C.PyTorchFileReader opens it and has a data.pkl record",
          "the table is read as a relation: reported zip formats need all their documented markers, documented rows are required, "
          "the list follows the documented precedence; with leading junk the file is not a zip at offset 0",
          "crash points are injected by raising OSError from an audit hook at the k-th shutil.copyfile / shutil.copymode "
          "event inside create_polyglot"]


def run(ctx):
    cells = tv.generate(ctx, "Formats", open(os.path.join(tlc.SPEC, "Formats.cfg")).read(), "CELL", workers=4, name="gen:Formats:cells")
    cells.sort(key=lambda c: json.dumps(c, sort_keys=True))
    ctx.rng.shuffle(cells)      # neighbours in the child's sequence (which re-uses one scratch path) differ in their marker sets
    t = open(os.path.join(tlc.SPEC, "PolyFS.cfg.tmpl")).read()
    r = tlc.run("PolyFS", t.replace("@G@", "TRUE"), workers=2, timeout=300)
    ctx.add_tlc("design:PolyFS", r)
    if not r["ok"]:
        ctx.drift.append("design model of create_polyglot violates Clean")
    if tlc.run("PolyFS", t.replace("@G@", "FALSE"), workers=2, timeout=300)["ok"]:
        raise MachineryError("negative design model (no cleanup on failure) was not refuted")
    ctx.notes.append("negative design model (temporaries not removed on failure) refuted by TLC as expected")
    scratch = tempfile.mkdtemp(prefix="verif_c17_")
    try:
        pj, outp = os.path.join(ctx.tmp, "c17_in.json"), os.path.join(ctx.tmp, "c17_out.json")
        json.dump({"scratch": scratch, "cells": cells, "poly": True, "faults": 3 if ctx.quick else 8}, open(pj, "w"))
        env = dict(os.environ, PYTHONPATH=os.pathsep.join([ROOT] + ([os.environ["VERIF_REPO"]] if os.environ.get("VERIF_REPO") else [])))
        rr = subprocess.run([sys.executable, "-m", "harness.c17child", pj, outp], cwd=scratch, env=env, capture_output=True, text=True, timeout=3000)
        if rr.returncode != 0:
            raise MachineryError("c17child failed: " + (rr.stderr or rr.stdout)[-800:])
        recs = json.load(open(outp))
    finally:
        shutil.rmtree(scratch, ignore_errors=True)
    verdicts = tv.validate(ctx, "FormatsTrace", recs, batch=30000)
    failures, nontriv = [], set()
    for rec in recs:
        v = verdicts[rec["id"]]
        if rec["kind"] in ("poly", "recur") or rec["ms"]:
            nontriv.add(json.dumps({k: rec[k] for k in ("cell", "a", "b", "fault_at", "member", "container") if k in rec}, sort_keys=True))
        if v["v"] != "ok":
            if rec["kind"] == "cell":
                sig = f"{v['v']} [markers={','.join(rec['ms']) or '-'} junk={rec['junk']} trailer={rec['cell']['trailer']}]"
            elif rec["kind"] == "recur":
                sig = f"{v['v']} [{rec['container']} member={rec['member']}]"
            else:
                sig = f"{v['v'].split(':')[0]} [pair={rec['a']}+{rec['b']} fault={rec['fault_at']} outcome={rec['outcome']}]"
            failures.append({"sig": sig, "detail": json.dumps({k: rec[k] for k in rec if k != 'id'})[:300], "replay_obj": {"property": "C17", "record": rec, "verdict": v}})
    samples = [recs[i] for i in range(0, len(recs), max(1, len(recs) // 5))][:5]
    return finish(ctx, level="model_checking", failures=failures, evaluations=len(recs), distinct_nontrivial=len(nontriv),
                  rule="TLC enumerates every cell: 32 marker subsets x placement {root, one directory} x filler member x leading junk x "
                       "trailer {none, pickle, tar} (768 cells), each built as a real zip and identified twice; TLC checks Clean on the "
                       "file-system protocol of create_polyglot with a failure after every step; all 36 ordered pairs of six real files "
                       "(torch.save zip, torch.jit.save, legacy, v0.1.1 tar, MAR-like zip, unknown) are run through create_polyglot, "
                       "without and with injected file-system faults; non-trivial = a cell with at least one marker, or a polyglot pair",
                  samples=samples, traces=len(recs), assumptions=ASSUME, extra={"cells": len(cells), "exhaustive": True})


def replay(ctx, path):
    import sys
    from ..core import generic_replay
    return generic_replay(ctx, sys.modules[__name__], path)
