"""C09 - stepping and tracing mirror the real pickle VM opcode by opcode."""
from .. import vmfamily


def clause(v, rec):
    if v["c09"] != "ok":
        return v["c09"]
    if v["c09t"] not in ("ok", "na"):
        return v["c09t"] + (":" + rec["fick"]["trace"]["exc"] if v["c09t"] == "trace-raised" else "")
    return None


def design(ctx):
    """design model of fickling's symbolic interpreter: FickVM refines PickleVM under the C09 projection"""
    import os
    from .. import tlc
    from ..tlc import MachineryError
    t = open(os.path.join(tlc.SPEC, "FickGen.cfg.tmpl")).read()
    n = 4 if ctx.quick else 5
    r = tlc.run("MCF_all", t.replace("@PINNED@", "FALSE").replace("@MAXLEN@", str(n)), workers=16, timeout=1800, heap="10g")
    ctx.add_tlc(f"design:FickVM-refines-PickleVM:len{n}", r)
    if not r["ok"]:
        ctx.drift.append("design model FickVM does not refine PickleVM under Proj: " + r["error"][:300].replace("\n", " "))
    rn = tlc.run("MCF_all", t.replace("@PINNED@", "TRUE").replace("@MAXLEN@", "4"), workers=8, timeout=900)
    if rn["ok"]:
        raise MachineryError("negative design model (ADDITEMS pops the set) was not refuted by the refinement check")
    ctx.notes.append("negative design model (pinned ADDITEMS) refuted by TLC as expected")


def run(ctx):
    design(ctx)
    return vmfamily.run_family(
        ctx, "C09", clause,
        nontrivial=lambda v, r: len(r["fick"]["steps"]) >= 3,
        rule="typed opcode programs enumerated by TLC (profiles calls/data/sharing/headers exhaustive to the "
             "stated length, mixed by simulation) + natural pickles at protocols 0-5; every prefix is checked "
             "(one VMTrace state per opcode); non-trivial = fickling stepped at least 3 opcodes; distinct by bytes",
        want=("steps", "dec", "trace"))


def replay(ctx, path):
    return vmfamily.replay(ctx, path, clause)
