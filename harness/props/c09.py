"""C09 - stepping and tracing mirror the real pickle VM opcode by opcode."""
from .. import vmfamily


def clause(v, rec):
    if v["c09"] != "ok":
        return v["c09"]
    if v["c09t"] not in ("ok", "na"):
        return v["c09t"] + (":" + rec["fick"]["trace"]["exc"] if v["c09t"] == "trace-raised" else "")
    return None


def run(ctx):
    return vmfamily.run_family(
        ctx, "C09", clause,
        nontrivial=lambda v, r: len(r["fick"]["steps"]) >= 3,
        rule="typed opcode programs enumerated by TLC (profiles calls/data/sharing/headers exhaustive to the "
             "stated length, mixed by simulation) + natural pickles at protocols 0-5; every prefix is checked "
             "(one VMTrace state per opcode); non-trivial = fickling stepped at least 3 opcodes; distinct by bytes",
        want=("steps", "dec", "trace"))


def replay(ctx, path):
    return vmfamily.replay(ctx, path, clause)
