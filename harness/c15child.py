"""Load built pickles against the logging sink and report what arrived.
usage: python -m harness.c15child <in.json> <out.json>;  in: [{id, hex, mode}]  mode: "args" | "result" """
import _pickle
import json
import os
import sys

sys.path.insert(0, os.path.join(os.path.dirname(os.path.abspath(__file__)), "natmods"))
import verif_sink  # noqa: E402


def td(v):
    if isinstance(v, int) and not isinstance(v, bool) and v.bit_length() > 12000:     # beyond the int->str digit limit
        import hashlib
        return ["int", "hex:" + hashlib.sha1(hex(v).encode()).hexdigest()]
    if isinstance(v, (list, tuple)):
        return [type(v).__name__] + [td(x) for x in v]
    if isinstance(v, dict):
        return ["dict"] + [[td(a), td(b)] for a, b in v.items()]
    return [type(v).__name__, repr(v)]


def main():
    items = json.load(open(sys.argv[1]))
    out = []
    for it in items:
        del verif_sink.calls[:]
        try:
            if it["mode"] == "builtin_arg":        # what builtins.exec / eval would receive (they are not run)
                import io
                import pickle

                class U(pickle.Unpickler):
                    def find_class(self, m, n):
                        if m in ("builtins", "__builtin__") and n in ("exec", "eval"):
                            return verif_sink.recv
                        return super().find_class(m, n)
                U(io.BytesIO(bytes.fromhex(it["hex"]))).load()
                rec = [c for c in verif_sink.calls if c[0] == "recv"]
                out.append({"id": it["id"], "ok": True, "got": [td(x) for x in rec[-1][1]] if rec else "no-call"})
                continue
            r = _pickle.loads(bytes.fromhex(it["hex"]))
            if it["mode"] == "result":
                got = td(r)
            else:
                rec = [c for c in verif_sink.calls if c[0] in ("recv", "fn")]
                got = [td(x) for x in rec[-1][1]] if rec else "no-call"
            out.append({"id": it["id"], "ok": True, "got": got})
        except BaseException as e:  # noqa: BLE001
            out.append({"id": it["id"], "ok": False, "got": "load-raised:" + type(e).__name__})
    json.dump(out, open(sys.argv[2], "w"))


if __name__ == "__main__":
    main()
