"""debug helper: python -m harness.dbg <hex> -> record, validate, print"""
import json, sys
from . import rec_vm, vmfamily, core
def main():
    data = bytes.fromhex(sys.argv[1])
    ctx = core.Ctx("DBG", "quick", 0)
    rec = rec_vm.record(rec_vm.from_bytes(0, data))
    v = vmfamily.validate(ctx, [rec])[0]
    print(json.dumps(v))
    print("REF res:", json.dumps(rec["ref"]["res"]))
    print("REF ev:", json.dumps(rec["ref"]["ev"]))
    print("FICK:", json.dumps(rec["fick"])[:3000])
    ctx.close()
main()
