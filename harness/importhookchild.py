"""Replay one history of spec/ImportHook.tla in THIS (fresh) process: the import hook changes sys.meta_path for good.
usage: python -m harness.importhookchild <hist as json list>   -> prints the steps as JSON"""
import importlib
import io
import json
import sys
import warnings

FLAGGED = b"cos\ngetpid\n(tR."


def state():
    mod = sys.modules.get("pickle")
    if mod is None:
        return "absent"
    return "real" if hasattr(mod, "Unpickler") else "stub"


def main():
    hist = json.loads(sys.argv[1])
    warnings.simplefilter("ignore")
    import fickling.import_hook as ih
    from fickling.exception import UnsafeFileError
    steps = []
    for op in hist:
        st = {"op": op, "has_load": False, "has_loads": False, "refuses": False}
        if op == "run_hook":
            ih.run_import_hook()
        elif op == "import":
            importlib.import_module("pickle")
        elif op == "forget":
            sys.modules.pop("pickle", None)
        else:
            mod = sys.modules.get("pickle")
            if mod is not None:
                st["has_load"], st["has_loads"] = hasattr(mod, "load"), hasattr(mod, "loads")
                try:
                    mod.load(io.BytesIO(FLAGGED))
                except UnsafeFileError:
                    st["refuses"] = True
                except Exception:  # noqa: BLE001
                    pass
        st["m"] = state()
        steps.append(st)
    print(json.dumps(steps))


if __name__ == "__main__":
    main()
