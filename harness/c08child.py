"""Load base and rewritten pickles with the real unpicklers against the logging sink.
usage: python -m harness.c08child <in.json> <out.json>
in: [{id, base_hex, new_hex, framed, mode}]   out: [{id, base_loads, bcalls, bres, injres, runs:[{name, ok, calls, res, exc}]}]"""
import _pickle
import hashlib
import io
import json
import os
import pickle
import sys

sys.path.insert(0, os.path.join(os.path.dirname(os.path.abspath(__file__)), "natmods"))
import verif_nat  # noqa: E402,F401
import verif_sink  # noqa: E402

sys.setrecursionlimit(5000)


def rc(v, depth=0):
    if depth > 60:
        return "deep"
    if isinstance(v, verif_sink.Thing):
        return ["Thing", rc(getattr(v, "args", ()), depth + 1), rc(getattr(v, "kw", {}), depth + 1), rc(getattr(v, "states", []), depth + 1)]
    if isinstance(v, (list, tuple)):
        return [type(v).__name__] + [rc(x, depth + 1) for x in v]
    if isinstance(v, dict):
        return ["dict"] + [[rc(a, depth + 1), rc(b, depth + 1)] for a, b in v.items()]
    if isinstance(v, (set, frozenset)):
        return [type(v).__name__] + sorted(json.dumps(rc(x, depth + 1), sort_keys=True, default=str) for x in v)
    if v is None or isinstance(v, (bool, int, float, str, bytes, bytearray)):
        return [type(v).__name__, repr(v)]
    if hasattr(v, "__dict__") and type(v).__module__ in ("verif_nat",):
        return [type(v).__name__, rc(vars(v), depth + 1)]
    if hasattr(v, "__slots__") and type(v).__module__ in ("verif_nat",):
        return [type(v).__name__] + [rc(getattr(v, s, None), depth + 1) for s in v.__slots__ if s != "__dict__"]
    if callable(v):
        return ["callable", getattr(v, "__module__", "?"), getattr(v, "__qualname__", getattr(v, "__name__", "?"))]
    return ["obj", type(v).__module__, type(v).__name__, repr(v)[:80]]


def dg(x):
    return hashlib.sha1(json.dumps(x, sort_keys=True, default=str).encode()).hexdigest()[:12]


def run_one(name, data):
    del verif_sink.calls[:]
    try:
        if name == "c-loads":
            v = _pickle.loads(data)
        elif name == "c-load-stream":
            v = _pickle.load(io.BytesIO(data))
        elif name == "c-load-peekable":
            v = _pickle.load(io.BufferedReader(io.BytesIO(data)))
        else:
            v = pickle._Unpickler(io.BytesIO(data)).load()
        ok, exc = True, ""
    except BaseException as e:  # noqa: BLE001
        v, ok, exc = None, False, type(e).__name__ + ":" + str(e)[:60]
    calls = [dg([c[0], rc(c[1]), rc(c[2])]) for c in verif_sink.calls if c[0] != "getattr"]
    return {"name": name, "ok": ok, "calls": calls, "res": dg(rc(v)) if ok else "", "exc": exc}, v


def main():
    items = json.load(open(sys.argv[1]))
    out = []
    for it in items:
        base, new = bytes.fromhex(it["base_hex"]), bytes.fromhex(it["new_hex"])
        b, bv = run_one("c-loads", base)
        names = ["c-loads", "c-load-stream", "c-load-peekable"] + ([] if it["framed"] else ["py"])
        runs = [run_one(n, new)[0] for n in names] if b["ok"] else []
        if it["mode"].startswith("fn_"):
            injres = dg(rc(["wrapped", bv]))
        else:
            injres = dg(rc("sunk-injected"))
        out.append({"id": it["id"], "base_loads": b["ok"], "bcalls": b["calls"], "bres": b["res"], "injres": injres, "runs": runs})
    json.dump(out, open(sys.argv[2], "w"))


if __name__ == "__main__":
    main()
