"""generic batched trace validation: records -> JSON files -> TLC(<module>) -> {id: verdict json}"""
import concurrent.futures as cf
import json
import os

from . import tlc
from .tlc import MachineryError


def validate(ctx, module, records, batch=5000, par=4, workers=4, cfg=None, heap="6g"):
    files = []
    for i in range(0, len(records), batch):
        p = os.path.join(ctx.tmp, f"{module}_{i // batch:04d}.json")
        with open(p, "w") as f:
            json.dump(records[i:i + batch], f)
        files.append(p)
    cfg = cfg or open(os.path.join(tlc.SPEC, module + ".cfg")).read()

    def one(p):
        return tlc.run(module, cfg, env={"VERIF_TRACE": p}, workers=workers, timeout=3000, heap=heap)

    verdicts = {}
    with cf.ThreadPoolExecutor(par) as ex:
        for p, r in zip(files, ex.map(one, files)):
            if not r["ok"]:
                raise MachineryError(f"TLC failed validating {os.path.basename(p)} with {module}: {r['error'][:900]}")
            ctx.add_tlc(f"validate:{module}:{os.path.basename(p)}", r)
            for ln in r["lines"]:
                tag, mids, js = tlc.payload(ln)
                if tag == "VERDICT":
                    verdicts[int(mids[0])] = js
    if len(verdicts) != len(records):
        raise MachineryError(f"{module}: trace verdicts are not total: {len(verdicts)} verdicts for {len(records)} traces")
    return verdicts


def generate(ctx, module, cfg, tag, *, simulate=None, depth=None, workers=8, name=None, heap="6g"):
    """run a generator spec and return the parsed payloads of its <<tag, json>> lines (sorted, unique)"""
    r = tlc.run(module, cfg, workers=workers if not simulate else 4, simulate=simulate, depth=depth,
                seed=ctx.seed, timeout=3000, heap=heap)
    if not r["ok"]:
        raise MachineryError(f"TLC failed on {module}: {r['error'][:900]}")
    ctx.add_tlc(name or f"gen:{module}", r)
    seen = {}
    for ln in r["lines"]:
        t, _m, js = tlc.payload(ln)
        if t == tag:
            seen.setdefault(json.dumps(js, sort_keys=True), js)
    return [seen[k] for k in sorted(seen)]
