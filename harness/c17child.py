"""Format identification on synthetic zips and polyglot creation on real files (imports torch).
usage: python -m harness.c17child <in.json> <out.json>   in: {"scratch", "cells": [...], "poly": bool, "faults": int}"""
import contextlib
import hashlib
import io
import json
import os
import pickle
import shutil
import sys
import tarfile
import tempfile
import warnings
import zipfile

FAULT = {"on": False, "n": 0, "at": 0}


def audit(name, args):
    if FAULT["on"] and name in ("shutil.copyfile", "shutil.copymode"):
        FAULT["n"] += 1
        if FAULT["n"] == FAULT["at"]:
            raise OSError("injected fault at file-system step %d (%s)" % (FAULT["at"], name))


sys.addaudithook(audit)
warnings.filterwarnings("ignore")
import torch  # noqa: E402
import fickling.polyglot as pg  # noqa: E402

NAMES = {"data": "data.pkl", "constants": "constants.pkl", "version": "version", "model_json": "model.json", "attributes": "attributes.pkl"}
BODY = {"data": pickle.dumps([1, 2, 3], 2), "constants": pickle.dumps((), 2), "version": b"3\n", "model_json": b"{}", "attributes": pickle.dumps([], 2)}


def sha(p):
    return hashlib.sha256(open(p, "rb").read()).hexdigest()


def listing(d):
    return sorted(os.path.relpath(os.path.join(r, f), d) for r, _d, fs in os.walk(d) for f in fs)


def quiet(f, *a, **k):
    with contextlib.redirect_stdout(io.StringIO()):
        return f(*a, **k)


def cell(c, d, i):
    # one scratch path is re-used for every cell (and every third cell gets its own): the answer is a function of the
    # file's bytes, not of what was at that path before
    p = os.path.join(d, "cell.zip" if i % 3 else f"cell{i}.zip")
    pre = "archive/" if c["place"] == "dir" else ""
    buf = io.BytesIO()
    with zipfile.ZipFile(buf, "w") as z:
        for m in sorted(c["ms"]):
            z.writestr(pre + NAMES[m], BODY[m])
        if c["filler"] == "data0":
            z.writestr(pre + "data/0", b"\x00" * 8)
        elif c["filler"] == "mar":
            z.writestr("MAR-INF/MANIFEST.json", "{}")
            z.writestr("model.pt", pickle.dumps({"w": 1}, 2))
            z.writestr("handler.py", "print(1)\n")
    raw = buf.getvalue()
    if c["trailer"] == "pickle":
        raw += pickle.dumps({"t": 1}, 2)
    elif c["trailer"] == "tar":
        tb = io.BytesIO()
        with tarfile.open(fileobj=tb, mode="w") as t:
            ti = tarfile.TarInfo("x")
            ti.size = 1
            t.addfile(ti, io.BytesIO(b"y"))
        raw += tb.getvalue()
    if c["junk"]:
        raw = b"junk!" + raw
    open(p, "wb").write(raw)
    h0, l0 = sha(p), listing(d)
    try:
        f1 = quiet(pg.identify_pytorch_file_format, p)
        f2 = quiet(pg.identify_pytorch_file_format, p)
        # the reporting options print; they are not part of the question
        f3 = quiet(pg.identify_pytorch_file_format, p, print_results=True)
        f4 = quiet(pg.identify_pytorch_file_format, p, print_properties=True, print_results=(i % 2 == 0))
        opts_same = list(f3) == list(f1) and list(f4) == list(f1)
        exc = ""
    except Exception as e:  # noqa: BLE001
        f1, f2, exc, opts_same = ["<raised>"], ["<raised2>"], type(e).__name__, True
    try:
        rd = torch._C.PyTorchFileReader(p)
        acc = bool(rd.has_record("data.pkl"))
    except Exception:  # noqa: BLE001
        acc = False
    rec = {"kind": "cell", "ms": sorted(c["ms"]), "junk": c["junk"], "formats": list(f1), "formats2": list(f2), "opts_same": bool(opts_same), "torch_accepts": acc,
           "same_bytes": sha(p) == h0, "same_listing": listing(d) == l0, "cell": c, "exc": exc}
    os.remove(p)
    return rec


def real_files(d):
    out = {}
    m = torch.nn.Linear(2, 2)
    p = os.path.join(d, "v13.pt")
    torch.save(m.state_dict(), p)
    out["v13"] = p
    p = os.path.join(d, "ts14.pt")
    torch.jit.save(torch.jit.script(m), p)
    out["ts14"] = p
    p = os.path.join(d, "legacy.pt")
    torch.save(m.state_dict(), p, _use_new_zipfile_serialization=False)
    out["legacy"] = p
    p = os.path.join(d, "old.tar")
    with tarfile.open(p, "w") as t:
        for n in ("sys_info", "pickle", "storages", "tensors"):
            ti = tarfile.TarInfo(n)
            b = pickle.dumps({}, 2)
            ti.size = len(b)
            t.addfile(ti, io.BytesIO(b))
    out["tar"] = p
    p = os.path.join(d, "model.mar")
    with zipfile.ZipFile(p, "w") as z:
        z.writestr("MAR-INF/MANIFEST.json", "{}")
        z.writestr("model.pt", open(out["legacy"], "rb").read())
        z.writestr("handler.py", "print(1)")
    out["mar"] = p
    p = os.path.join(d, "junk.bin")
    open(p, "wb").write(b"\xff\xfe\x00not a model")
    out["junk"] = p
    return out


COMBINES = {frozenset(("mar", "legacy")): ["PyTorch model archive format", "PyTorch v0.1.10"],
            frozenset(("v13", "ts14")): ["PyTorch v1.3", "TorchScript v1.4"],
            frozenset(("mar", "tar")): ["PyTorch model archive format", "PyTorch v0.1.1"]}


def poly(d, files, a, b, fault_at):
    work = os.path.join(d, "work")
    shutil.rmtree(work, ignore_errors=True)
    os.makedirs(work)
    pa, pb = os.path.join(work, os.path.basename(files[a])), os.path.join(work, "second_" + os.path.basename(files[b]))
    shutil.copy(files[a], pa)
    shutil.copy(files[b], pb)
    ha, hb = sha(pa), sha(pb)
    cwd = os.getcwd()
    os.chdir(work)
    if (fault_at + len(a) + len(b)) % 2:        # the working directory is not empty: it already holds an entry called `temp`
        os.makedirs(os.path.join(work, "temp"), exist_ok=True)      # (the name the construction uses for its scratch files)
    before = set(listing(work))
    FAULT.update(on=fault_at > 0, n=0, at=fault_at)
    outname = "poly.out"
    try:
        made = quiet(pg.create_polyglot, pa, pb, outname, False)
        outcome = "made" if made else "none"
        exc = ""
    except BaseException as e:  # noqa: BLE001
        outcome, exc = "raised", type(e).__name__
    finally:
        FAULT["on"] = False
        os.chdir(cwd)
    after = set(listing(work))
    # the file the caller named as output is not a temporary file, whatever the outcome (a fault in the very last
    # step - copying the mode bits onto the finished output - leaves the output in place and raises)
    left = sorted(after - before - {outname})
    out_formats = []
    if outcome == "made" and os.path.exists(os.path.join(work, outname)):
        try:
            out_formats = list(quiet(pg.identify_pytorch_file_format, os.path.join(work, outname)))
        except Exception:  # noqa: BLE001
            out_formats = []
    expected = []
    if outcome == "made":
        # the formats the construction combines: the documented pairs, otherwise (a construction the table does not
        # list) what each input is primarily identified as
        expected = COMBINES.get(frozenset((a, b)))
        if expected is None:
            expected = []
            for f in (files[a], files[b]):
                try:
                    fs = list(quiet(pg.identify_pytorch_file_format, f))
                except Exception:  # noqa: BLE001
                    fs = []
                expected += fs[:1]
    return {"kind": "poly", "a": a, "b": b, "fault_at": fault_at, "outcome": outcome, "exc": exc,
            "inputs_same": os.path.exists(pa) and os.path.exists(pb) and sha(pa) == ha and sha(pb) == hb,
            "leftovers": left, "expected": expected, "out_formats": out_formats}


def recur(d, n, member, container="tar"):
    """the recursive property discovery (it looks inside tar and zip archives) on an archive whose member name is legal for
    the container but that the usual writers never produce: inspection stays read-only and leaves nothing anywhere"""
    area = os.path.join(d, "recur_area")
    shutil.rmtree(area, ignore_errors=True)
    inner = os.path.join(area, "a", "b")
    os.makedirs(inner)
    p = os.path.join(inner, f"arch{n}.{container}")
    body = pickle.dumps({"n": n}, 2)
    if container == "tar":
        with tarfile.open(p, "w") as t:
            for name in ("pickle", member):
                ti = tarfile.TarInfo(name)
                ti.size = len(body)
                t.addfile(ti, io.BytesIO(body))
    else:
        with zipfile.ZipFile(p, "w") as z:
            for name in ("plain.pkl", member):
                z.writestr(zipfile.ZipInfo(name), body)
    # temporary directories are created three levels inside the watched area, so that a member written outside its
    # temporary directory still lands where the listing sees it
    tdir = os.path.join(area, "t", "u", "v")
    os.makedirs(tdir)
    h0, l0 = sha(p), listing(area)
    exc, old = "", tempfile.tempdir
    tempfile.tempdir = tdir
    try:
        r1 = quiet(pg.find_file_properties_recursively, p)
        r2 = quiet(pg.find_file_properties_recursively, p)
        det = json.dumps(r1, sort_keys=True, default=str) == json.dumps(r2, sort_keys=True, default=str)
    except Exception as e:  # noqa: BLE001 - a refusal is an answer; what matters is what is left behind
        det, exc = True, type(e).__name__
    finally:
        tempfile.tempdir = old
    rec = {"kind": "recur", "member": member, "container": container, "deterministic": bool(det), "same_bytes": sha(p) == h0,
           "same_listing": listing(area) == l0, "new_files": sorted(set(listing(area)) - set(l0))[:3], "exc": exc}
    shutil.rmtree(area, ignore_errors=True)
    return rec


def main():
    spec = json.load(open(sys.argv[1]))
    d = spec["scratch"]
    os.makedirs(d, exist_ok=True)
    out = [cell(c, d, i) for i, c in enumerate(spec["cells"])]
    for n, member in enumerate(("plain.bin", "dir/inner.bin", "../escaped.bin", "../../escaped2.bin", "./dot.bin")):
        out.append(recur(d, n, member))
        out.append(recur(d, n, member, "zip"))
    if spec.get("poly"):
        files = real_files(d)
        # real files also go through identification (TorchAccepts => PyTorch v1.3)
        kinds = sorted(files)
        for a in kinds:
            for b in kinds:
                out.append(poly(d, files, a, b, 0))
                for k in range(1, spec.get("faults", 0) + 1):
                    out.append(poly(d, files, a, b, k))
    for i, r in enumerate(out):
        r["id"] = i
    json.dump(out, open(sys.argv[2], "w"))


if __name__ == "__main__":
    main()
