"""fickling/import_hook.py as a small state machine (spec/ImportHookRel.tla): TLC enumerates the histories, each is replayed
in a fresh interpreter (the hook changes sys.meta_path for good) and TLC validates what sys.modules held and what a probe
saw.  Beyond the listed properties: disagreements are MODEL-DRIFT, never alarms."""
import concurrent.futures as cf
import json
import os
import subprocess
import sys

from . import tlc, tv
from .core import ROOT


def run(ctx, sample=None):
    hists = tv.generate(ctx, "ImportHook", open(os.path.join(tlc.SPEC, "ImportHook.cfg")).read(), "HIST", workers=4, name="design+gen:ImportHook")
    hists = [h for h in hists if "run_hook" in h and "probe" in h]
    if sample and len(hists) > sample:
        ctx.rng.shuffle(hists)
        hists = hists[:sample]
    env = dict(os.environ, PYTHONPATH=os.pathsep.join([ROOT] + ([os.environ["VERIF_REPO"]] if os.environ.get("VERIF_REPO") else [])))

    def one(h):
        r = subprocess.run([sys.executable, "-m", "harness.importhookchild", json.dumps(h)], cwd=ROOT, env=env, capture_output=True, text=True, timeout=120)
        return json.loads(r.stdout) if r.returncode == 0 and r.stdout.strip() else None
    with cf.ThreadPoolExecutor(12) as ex:
        outs = list(ex.map(one, hists))
    recs = [{"id": i, "hist": h, "steps": o} for i, (h, o) in enumerate(zip(hists, outs)) if o is not None]
    failed = len(hists) - len(recs)
    recs = [dict(r, id=i) for i, r in enumerate(recs)]
    verdicts = tv.validate(ctx, "ImportHookTrace", recs) if recs else {}
    bad = {}
    for r in recs:
        v = verdicts[r["id"]]["v"]
        if v != "accepted":
            bad.setdefault(v.split(" (step")[0], []).append(r)
    for v, rs in sorted(bad.items())[:5]:
        ctx.drift.append(f"import hook: {v} [{len(rs)} histories, e.g. {rs[0]['hist']}]")
    if failed:
        ctx.drift.append(f"import hook: {failed} histories could not be replayed (child failed)")
    ctx.notes.append(f"import hook state machine (spec/ImportHookRel.tla): {len(recs)} histories replayed in fresh interpreters, "
                     f"{sum(map(len, bad.values()))} rejected")
    return len(recs)
