"""Shared plumbing: context, known findings, evidence, the MANIFEST interface."""
import json
import os
import random
import shutil
import sys
import tempfile
import time

ROOT = os.path.dirname(os.path.dirname(os.path.abspath(__file__)))
OUT = os.path.join(ROOT, "out")
REPLAY = os.path.join(OUT, "replay")
EVID = os.path.join(ROOT, "evidence")
KNOWN = os.path.join(ROOT, "known_findings.json")


class Ctx:
    def __init__(self, prop, tier, seed):
        self.prop, self.tier, self.seed = prop, tier, seed
        self.rng = random.Random(seed * 1000003 + sum(map(ord, prop)))
        self.t0 = time.time()
        self.tmp = tempfile.mkdtemp(prefix=f"verif_{prop}_")
        self.states = 0
        self.transitions = 0
        self.tlc_runs = []
        self.notes = []
        self.drift = []
        os.makedirs(REPLAY, exist_ok=True)
        os.makedirs(EVID, exist_ok=True)

    @property
    def quick(self):
        return self.tier == "quick"

    def add_tlc(self, name, r):
        self.states += r["distinct"]
        self.transitions += r["generated"]
        self.tlc_runs.append({"run": name, "distinct": r["distinct"], "generated": r["generated"],
                              "wall_s": round(r["wall"], 2), "ok": r["ok"]})

    def close(self):
        shutil.rmtree(self.tmp, ignore_errors=True)


def load_known(prop):
    if not os.path.exists(KNOWN):
        return []
    with open(KNOWN) as f:
        data = json.load(f)
    return [k for k in data.get("open", []) if k["property"] == prop]


def match_known(known, failure):
    """failure: dict(clause=..., opset=set()|None, sig=str|None).  A finding matches when
       - it has "sig": equal to failure["sig"]
       - it has "clause"/"requires": same clause and all required opcodes occur in the program."""
    for k in known:
        s = k["signature"]
        if "sig_re" in s:
            import re
            if failure.get("sig") and re.search(s["sig_re"], failure["sig"]):
                return k
        elif "sig" in s:
            if failure.get("sig") == s["sig"]:
                return k
        else:
            if failure.get("clause", "").startswith(s["clause"]) and set(s.get("requires", [])) <= set(failure.get("opset") or ()):
                if all(x not in (failure.get("opset") or ()) for x in s.get("absent", [])):
                    return k
    return None


def generic_replay(ctx, mod, path):
    """Re-run the check on the current tree and say whether the recorded counterexample's class still occurs
    (used by the properties whose cases are (re)generated as a whole by TLC + a child process)."""
    with open(path) as f:
        obj = json.load(f)
    want = obj.get("sig") or obj.get("clause")
    import contextlib
    import io
    buf = io.StringIO()
    with contextlib.redirect_stdout(buf):
        mod.run(ctx)
    hits = [f for f in getattr(ctx, "last_failures", []) if (f.get("sig") or f.get("clause")) == want]
    if hits:
        print(f"VIOLATION property={ctx.prop} replay={path}   # still occurs: {want} ({len(hits)} case(s)); {hits[0].get('detail', '')[:200]}")
        return 1
    print(f"{ctx.prop}: the recorded case ({want}) does not occur on the current tree")
    return 0


def write_replay(prop, name, obj):
    p = os.path.join(REPLAY, f"{prop}_{name}.json")
    with open(p, "w") as f:
        json.dump(obj, f, indent=1, default=str)
    return p


def finish(ctx, *, level, failures, evaluations, distinct_nontrivial, rule, samples, traces,
           assumptions, extra=None, exhaustive=False, machinery_errors=()):
    """failures: list of dict(clause/sig, opset, detail, replay_obj).  Prints the interface lines,
    writes the evidence file and returns the exit code."""
    known = load_known(ctx.prop)
    ctx.last_failures = failures
    new, kn = [], {}
    for f in failures:
        k = match_known(known, f)
        if k is None:
            new.append(f)
        else:
            kn.setdefault(k["id"], [k, 0])[1] += 1
    rc = 0
    if machinery_errors:
        for m in machinery_errors[:10]:
            print(f"MACHINERY-ERROR property={ctx.prop} {m}")
        rc = 2
    for kid, (k, n) in sorted(kn.items()):
        print(f"KNOWN-FINDING: property={ctx.prop} {k['what']} [{kid}; {n} case(s) in this run]")
    shown = {}
    for f in new:
        key = f.get("sig") or (f.get("clause"), tuple(sorted(f.get("opset") or ()))[:0])
        if key in shown:
            shown[key][1] += 1
            continue
        ro = dict(f.get("replay_obj", {}))
        ro.update({"sig": f.get("sig"), "clause": f.get("clause"), "detail": f.get("detail")})
        path = write_replay(ctx.prop, f"{len(shown):03d}", ro)
        shown[key] = [path, 1, f]
    for key, (path, n, f) in list(shown.items())[:25]:
        print(f"VIOLATION property={ctx.prop} replay={path}   # {f.get('sig') or f.get('clause')}: {f.get('detail', '')[:160]} ({n} case(s))")
    if new and rc == 0:
        rc = 1
    for d in ctx.drift[:10]:
        print(f"MODEL-DRIFT property={ctx.prop} {d}")
    cov = {"states": ctx.states, "transitions": ctx.transitions,
           "traces_validated_against_impl": traces, "samples": samples[:6] or ["(none)"],
           "evaluations": evaluations, "distinct_nontrivial": distinct_nontrivial, "rule": rule,
           "exhaustive": exhaustive, "tlc_runs": ctx.tlc_runs, "known_findings_hit": sorted(kn),
           "model_drift": ctx.drift[:20], "notes": ctx.notes[:20]}
    if extra:
        cov.update(extra)
    ev = {"property_id": ctx.prop, "tier": ctx.tier, "seed": ctx.seed, "level": level, "coverage": cov,
          "assumptions": assumptions, "wall_s": round(time.time() - ctx.t0, 2), "violations": len(new)}
    with open(os.path.join(EVID, f"{ctx.prop}.json"), "w") as f:
        json.dump(ev, f, indent=1, default=str)
    print(f"{ctx.prop} tier={ctx.tier} seed={ctx.seed}: states={ctx.states} transitions={ctx.transitions} "
          f"traces={traces} evaluations={evaluations} violations={len(new)} known={sum(n for _, n in kn.values())} "
          f"wall={ev['wall_s']}s rc={rc}")
    sys.stdout.flush()
    return rc
