import verif_sink

verif_sink.calls.append(("verif_pkg.sub-imported", (), {}))


def thing(*a, **k):
    verif_sink.calls.append(("verif_pkg.sub.thing", a, k))
