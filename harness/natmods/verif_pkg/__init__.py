"""A package that must never be imported by an analysis: importing it is logged in the sink."""
import verif_sink

verif_sink.calls.append(("verif_pkg-imported", (), {}))
