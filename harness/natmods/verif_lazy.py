"""A module that the host program imports LAZILY (importlib.util.LazyLoader): it is registered in sys.modules but its body
has not run.  Running it - which any attribute read on the lazy module object triggers - is logged in the sink."""
import verif_sink

verif_sink.calls.append(("verif_lazy-executed", (), {}))


def x(*a, **k):
    verif_sink.calls.append(("verif_lazy.x", a, k))
