"""Classes whose instances are pickled by the natural-pickle generator (never executed by checks:
the reference VM and the decompiled programs run against inert stand-ins)."""


class Plain:
    def __init__(self, **kw):
        self.__dict__.update(kw)


class Slotted:
    __slots__ = ("a", "b")

    def __init__(self, a, b):
        self.a, self.b = a, b


class DictAndSlots:
    __slots__ = ("s", "__dict__")

    def __init__(self, s, **kw):
        self.s = s
        self.__dict__.update(kw)


def rebuild(*args):
    return Reducer(*args)


class Reducer:
    def __init__(self, *args):
        self.args = args
        self.state = None
        self.items = []
        self.kv = {}

    def __reduce__(self):
        return (rebuild, self.args, self.state, iter(self.items) if self.items else None,
                iter(self.kv.items()) if self.kv else None)

    def __setstate__(self, st):
        self.state = st

    def append(self, x):
        self.items.append(x)

    def extend(self, xs):
        self.items.extend(xs)

    def __setitem__(self, k, v):
        self.kv[k] = v


class NewArgs:
    def __new__(cls, *a, **k):
        o = object.__new__(cls)
        o.a, o.k = a, k
        return o

    def __getnewargs_ex__(self):
        return self.a, self.k


class NewArgsPos(tuple):
    def __new__(cls, *a):
        return tuple.__new__(cls, a)

    def __getnewargs__(self):
        return tuple(self)


class StateTuple:
    def __init__(self, x):
        self.x = x

    def __getstate__(self):
        return (self.x, "t")

    def __setstate__(self, st):
        self.x = st[0]


class ListSub(list):
    """a list subclass: the pickler creates it through a call and fills it with APPENDS"""
    pass
