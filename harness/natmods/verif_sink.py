"""Harmless sink: every access / call is logged; nothing else happens."""
calls = []


def hit(*a, **k):
    calls.append(("hit", a, k))
    return "sunk"


def other(*a, **k):
    calls.append(("other", a, k))
    return "sunk-other"


class Thing:
    def __init__(self, *a, **k):
        calls.append(("Thing", a, k))


def __getattr__(name):
    if name.startswith("__"):
        raise AttributeError(name)
    calls.append(("getattr", name))

    def f(*a, **k):
        calls.append((name, a, k))
        return "sunk-" + name
    f.__name__ = f.__qualname__ = name
    return f
