"""Harmless sink: every access / call is logged; nothing else happens."""
calls = []


def hit(*a, **k):
    calls.append(("hit", a, k))
    return "sunk"


def other(*a, **k):
    calls.append(("other", a, k))
    return "sunk-other"


class Thing:
    def __init__(self, *a, **k):
        calls.append(("Thing", a, k))


def __getattr__(name):
    if name.startswith("__"):
        raise AttributeError(name)
    calls.append(("getattr", name))

    def f(*a, **k):
        calls.append((name, a, k))
        return "sunk-" + name
    f.__name__ = f.__qualname__ = name
    return f


class Thing:  # noqa: F811 - richer stand-in used by the injection checks
    def __init__(self, *a, **k):
        self.args, self.kw, self.states = a, k, []
        calls.append(("Thing", a, k))

    def __setstate__(self, st):
        if not hasattr(self, "states"):
            self.args, self.kw, self.states = (), {}, []
        self.states.append(st)
        calls.append(("Thing.setstate", (st,), {}))
