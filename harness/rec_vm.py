"""Recorder for the program-space properties (C03 C04 C05 C09 C19): for one pickle it records
  ref  : what CPython's unpickler does (stepping projection, event log, canonical result)
  fick : what fickling does (stepping projection, decompile outcome, events/result of the executed
         decompiled program, verdict/report of check_safety, tracing)
The record is validated by TLC against spec/VMTrace.tla; nothing is decided here."""
import ast
import contextlib
import io
import json
import sys

from . import refvm
from .asm import assemble, disassemble, OutOfDomain

sys.setrecursionlimit(4000)


def _imp():
    import fickling.fickle as fk
    import fickling.analysis as an
    import fickling.tracing as tr
    return fk, an, tr


def digest_ast(node):
    """address-free structural digest of an AST that may contain tuples, iterators and foreign
    objects (fickling puts tuples in `elts`, iterators in Dict.keys on the pinned tree)."""
    if isinstance(node, ast.AST):
        return [type(node).__name__] + [[f, digest_ast(getattr(node, f, None))] for f in node._fields]
    if isinstance(node, (list, tuple)):
        return ["seq"] + [digest_ast(x) for x in node]
    if node is None or isinstance(node, (bool, int, float, str, bytes)):
        return ["k", type(node).__name__, repr(node)]
    if hasattr(node, "__next__"):
        return ["iter", type(node).__name__]       # never consumed by the harness
    return ["obj", type(node).__name__]


def _text(tree):
    try:
        return ast.unparse(tree)
    except RecursionError:
        raise
    except Exception as e:  # noqa: BLE001
        return "unparse-raised:" + type(e).__name__


def _proj(it, fk):
    stack = it.stack
    marks = [i + 1 for i in range(len(stack)) if isinstance(stack[i], fk.MarkObject)]
    keys = []
    for k in it.memory:
        try:
            keys.append(int(k))
        except (TypeError, ValueError):
            keys.append(-1)
    return {"depth": len(stack), "marks": marks, "keys": sorted(keys)}


SEVNUM = None


def sevnum(an, sev):
    order = [an.Severity.LIKELY_SAFE, an.Severity.POSSIBLY_UNSAFE, an.Severity.SUSPICIOUS,
             an.Severity.LIKELY_UNSAFE, an.Severity.LIKELY_OVERTLY_MALICIOUS, an.Severity.OVERTLY_MALICIOUS]
    for i, s in enumerate(order):
        if s is sev:
            return i
    return -1


def record_fick(data, want=("steps", "dec", "chk", "trace")):
    fk, an, tr = _imp()
    out = {"parse": "ok", "steps": [], "step_exc": "", "dec": {"ok": False, "exc": "not-run", "reask_differs": False},
           "run": {"ok": False, "ev": [], "exc": "not-run", "res": {"k": "mark"}, "static": [], "has_static": False},
           "chk": {"ran": False, "ok": False, "exc": "", "sev": 0, "nfind": 0, "find_ok": True, "maxfind": 0,
                   "json_ok": False, "sevname_ok": False, "loader_ran": False, "loader_ok": True, "loader_why": "",
                   "inj_ran": False, "inj_sev": 0},
           "trace": {"ran": False, "ok": False, "exc": "", "ops_ok": False, "same_ast": False, "prefix_ok": True, "prefix_why": "",
                     "observer_ok": True}}
    try:
        p = fk.Pickled.load(data)
    except BaseException as e:  # noqa: BLE001
        out["parse"] = "refused:" + type(e).__name__
        return out
    names = [op.info.name for op in p]
    if "steps" in want:
        it = fk.Interpreter(p)
        try:
            for _ in range(len(p)):
                op = it.step()
                out["steps"].append(_proj(it, fk))
                if getattr(getattr(op, "info", None), "name", "") == "STOP":        # the program is complete
                    break
        except StopIteration:
            pass
        except BaseException as e:  # noqa: BLE001
            out["step_exc"] = type(e).__name__
    src = None
    if "dec" in want:
        p2 = fk.Pickled.load(data)

        def ask():
            try:
                return (True, ast.unparse(p2.ast))
            except BaseException as e:  # noqa: BLE001
                return (False, type(e).__name__)
        # the same object is asked twice: a program it hands out on ANY request is a decompilation of these bytes
        # and is judged (a refusal that turns into a program when asked again is not a refusal)
        a1 = ask()
        a2 = ask()
        use = a2 if (a2[0] and a2 != a1) else a1
        if use[0]:
            src = use[1]
            out["dec"] = {"ok": True, "exc": "", "reask_differs": a1 != a2}
        else:
            out["dec"] = {"ok": False, "exc": use[1], "reask_differs": a1 != a2}
        if src is not None:
            r = refvm.run_decompiled(src)
            out["run"] = {"ok": r["ok"], "ev": r["ev"], "exc": r.get("exc", ""),
                          "res": r.get("res", {"k": "mark"}),
                          "static": r["static"] or [], "has_static": r["static"] is not None}
    if "chk" in want and out["dec"]["ok"]:
        p3 = fk.Pickled.load(data)
        c = out["chk"]
        c["ran"] = True
        try:
            res = an.check_safety(p3)
            c["ok"] = True
            c["sev"] = sevnum(an, res.severity)
            # the same object is analysed again, also after its summaries were looked at: every verdict it hands out is a
            # verdict for these bytes, and the lowest one is what the floor is compared with
            again = an.check_safety(p3)
            _ = (p3.has_import, p3.has_call, p3.has_non_setstate_call, list(p3.properties.imports), list(p3.properties.calls),
                 list(p3.properties.non_setstate_calls))
            third = an.check_safety(p3)
            # ... and the verdict is not a reporting matter: asking for terse output does not lower it
            terse = an.check_safety(p3, verbosity=an.Severity.OVERTLY_MALICIOUS)
            c["sev"] = min(c["sev"], sevnum(an, again.severity), sevnum(an, third.severity), sevnum(an, terse.severity))
            # ... and once more after an eval call was injected into this very object (analysed before the edit): whatever
            # else the program does, it now calls eval
            if names and names[-1] == "STOP":
                try:
                    p3.insert_python_eval("1", run_first=True, use_output_as_unpickle_result=bool(len(names) % 2))     # (run-first: the call is made whatever the base leaves on the stack)
                    c["inj_ran"], c["inj_sev"] = True, sevnum(an, an.check_safety(p3).severity)
                except Exception:  # noqa: BLE001 - the helper or the analysis refuses this program: nothing is claimed
                    c["inj_ran"] = False
            c["nfind"] = len(res.results)
            fs = [sevnum(an, getattr(f, "severity", None)) for f in res.results]
            c["find_ok"] = all(x >= 0 for x in fs) and all(isinstance(getattr(f, "message", None), str) for f in res.results)
            c["maxfind"] = max(fs) if fs else 0
            d = res.to_dict()
            try:
                json.dumps(d)
                c["json_ok"] = True
            except (TypeError, ValueError):
                c["json_ok"] = False
            c["sevname_ok"] = d.get("severity") == res.severity.name
            if c["sev"] > 0:
                # the checked loader on the same bytes (nothing may run: pickle.loads is neutralised for the call)
                import pickle as _pk
                import fickling
                from fickling.exception import UnsafeFileError
                real_loads = _pk.loads
                _pk.loads = lambda *a, **k: "NOT-EXECUTED"
                c["loader_ran"] = True
                order = [an.Severity.LIKELY_SAFE, an.Severity.POSSIBLY_UNSAFE, an.Severity.SUSPICIOUS, an.Severity.LIKELY_UNSAFE,
                         an.Severity.LIKELY_OVERTLY_MALICIOUS, an.Severity.OVERTLY_MALICIOUS]
                import os
                import tempfile
                jp = os.path.join(tempfile.gettempdir(), f"verif_loader_report_{os.getpid()}.json")
                try:
                    # every threshold below the verdict refuses; the error (and the report file, when asked for) carry the
                    # same content as the summary of the check
                    for t in sorted({0, 3, c["sev"] - 1} & set(range(c["sev"]))):
                        kw = {} if t == 0 else {"max_acceptable_severity": order[t]}
                        if t == c["sev"] - 1:
                            if os.path.exists(jp):
                                os.remove(jp)
                            kw["json_output_path"] = jp
                        try:
                            fickling.load(io.BytesIO(data), **kw)
                            c["loader_ok"], c["loader_why"] = False, f"loader-accepts-what-the-check-flags-t{t}"
                        except UnsafeFileError as e:
                            if e.info != d:
                                c["loader_ok"], c["loader_why"] = False, f"loader-report-differs-t{t}"
                            elif "json_output_path" in kw and json.load(open(jp)) != json.loads(json.dumps(d)):
                                c["loader_ok"], c["loader_why"] = False, f"loader-json-report-differs-t{t}"
                        except BaseException as e:  # noqa: BLE001
                            c["loader_ok"], c["loader_why"] = False, "loader-raised-" + type(e).__name__
                        if not c["loader_ok"]:
                            break
                finally:
                    _pk.loads = real_loads
                    if os.path.exists(jp):
                        os.remove(jp)
        except BaseException as e:  # noqa: BLE001
            c["exc"] = type(e).__name__
    if "trace" in want and out["dec"]["ok"]:
        t = out["trace"]
        t["ran"] = True
        p4 = fk.Pickled.load(data)
        buf = io.StringIO()
        try:
            with contextlib.redirect_stdout(buf):
                traced = tr.Trace(fk.Interpreter(p4)).run()
            t["ok"] = True
            reported = [ln for ln in buf.getvalue().splitlines() if ln and not ln.startswith("\t")]
            # every opcode once, in order (the interpreter stops at STOP)
            upto = names.index("STOP") + 1 if "STOP" in names else len(names)
            t["ops_ok"] = reported == names[:upto]
            plain = fk.Interpreter(fk.Pickled.load(data)).to_ast()
            try:
                t["same_ast"] = digest_ast(traced) == digest_ast(plain) and _text(traced) == _text(plain)
            except RecursionError:
                t["same_ast"] = True        # cyclic AST: not comparable structurally, not charged
        except BaseException as e:  # noqa: BLE001
            t["exc"] = type(e).__name__
            t["why"] = type(e).__name__
        # tracing the way the command line does for a member of a stack must not change what the object answers afterwards
        try:
            p5 = fk.Pickled.load(data)
            with contextlib.redirect_stdout(io.StringIO()):
                tr.Trace(fk.Interpreter(p5, first_variable_id=3, result_variable="result1")).run()
            t["observer_ok"] = _text(p5.ast) == _text(fk.Pickled.load(data).ast)
        except RecursionError:
            pass
        except BaseException:  # noqa: BLE001 - judged by the clauses above
            pass
        # proper prefixes (no STOP): tracing must still be a passive view of the same interpreter run
        ops_all = list(fk.Pickled.load(data))
        for k in sorted({len(ops_all) - 1, len(ops_all) // 2} - {0}):
            why = _trace_prefix(fk, tr, ops_all, k)
            if why:
                t["prefix_ok"], t["prefix_why"] = False, why
                break
    return out


def _trace_prefix(fk, tr, ops, k):
    def plain():
        it = fk.Interpreter(fk.Pickled(list(ops[:k])))
        try:
            tree = it.to_ast()
            return ("ok", _text(tree), len(it.stack))
        except RecursionError:
            return ("cyclic", "", 0)
        except BaseException as e:  # noqa: BLE001
            return ("exc:" + type(e).__name__, "", 0)

    def traced():
        it = fk.Interpreter(fk.Pickled(list(ops[:k])))
        buf = io.StringIO()
        try:
            with contextlib.redirect_stdout(buf):
                tree = tr.Trace(it).run()
            rep = [ln for ln in buf.getvalue().splitlines() if ln and not ln.startswith("\t")]
            return ("ok", _text(tree), len(it.stack), rep)
        except RecursionError:
            return ("cyclic", "", 0, [])
        except BaseException as e:  # noqa: BLE001
            return ("exc:" + type(e).__name__, "", 0, [])
    a, b = plain(), traced()
    if "cyclic" in (a[0], b[0]):
        return ""
    if a[0] != b[0]:
        return f"prefix{k}-outcome"
    if a[0] == "ok":
        if b[3] != [o.info.name for o in ops[:k]]:
            return f"prefix{k}-opcodes"
        if a[1] != b[1]:
            return f"prefix{k}-program"
        if a[2] != b[2]:
            return f"prefix{k}-stack-depth"
    return ""


def typed_equal(a, b):
    """deep equality that also compares types (1 != 1.0 != True, -0.0 != 0.0)"""
    if type(a) is not type(b):
        return False
    if isinstance(a, (list, tuple)):
        return len(a) == len(b) and all(typed_equal(x, y) for x, y in zip(a, b))
    if isinstance(a, dict):
        return len(a) == len(b) and all(any(typed_equal(k, k2) and typed_equal(v, b[k2]) for k2 in b) for k, v in a.items())
    if isinstance(a, (set, frozenset)):
        return len(a) == len(b) and all(any(typed_equal(x, y) for y in b) for x in a)
    if isinstance(a, float):
        return repr(a) == repr(b)
    return a == b


def run_plain(src, data):
    """plain data: execute the decompiled program with the REAL builtins it needs (no stand-ins) and compare the
    result with what the stock unpickler builds from the same bytes"""
    import builtins
    import pickle as _p
    allowed = {"builtins", "__builtin__", "_codecs", "copy_reg", "copyreg"}

    def imp(name, globals=None, locals=None, fromlist=(), level=0):  # noqa: A002
        if name not in allowed:
            raise ImportError("plain data must not need " + name)
        return __import__("builtins" if name == "__builtin__" else ("copyreg" if name == "copy_reg" else name), globals, locals, fromlist, level)
    env = {"__builtins__": {**{k: getattr(builtins, k) for k in ("set", "frozenset", "bytearray", "complex", "range", "slice", "bytes", "str", "int", "float", "bool", "list", "dict", "tuple", "object")}, "__import__": imp}}
    try:
        want = _p.loads(data)
        exec(compile(src, "<plain>", "exec"), env)  # noqa: S102 - plain data only, restricted builtins
        return {"ran": True, "equal": bool(typed_equal(env.get("result"), want)), "exc": ""}
    except BaseException as e:  # noqa: BLE001
        return {"ran": True, "equal": False, "exc": type(e).__name__}


def record(item):
    """item = {"id", "prog" (spec ops) [, "hex" (bytes)] [, "variants"] [, "want"]}"""
    ops = item["prog"]
    data = bytes.fromhex(item["hex"]) if "hex" in item else assemble(ops, item.get("variants"))
    ref = refvm.run_ref(data)
    rec = {"id": item["id"], "prog": ops, "hex": data.hex(), "tag": item.get("tag", ""),
           "ref": {"ok": ref["ok"], "steps": ref["steps"], "ev": ref["ev"],
                   "res": ref.get("res", {"k": "mark"}), "exc": ref.get("exc", ""), "stale": bool(ref.get("stale", False))}}
    rec["fick"] = record_fick(data, item.get("want", ("steps", "dec", "chk", "trace")))
    rec["fick"]["plain"] = {"ran": False, "equal": True, "exc": ""}
    if rec["tag"] == "plain" and rec["fick"]["dec"]["ok"]:
        import fickling.fickle as fk
        try:
            rec["fick"]["plain"] = run_plain(ast.unparse(fk.Pickled.load(data).ast), data)
        except RecursionError:
            pass
    return rec


def record_many(items, procs=14):
    if len(items) < 200 or procs <= 1:
        return [record(i) for i in items]
    import multiprocessing as mp
    with mp.get_context("fork").Pool(procs) as pool:
        return pool.map(record, items, chunksize=max(1, len(items) // (procs * 8)))


def from_bytes(i, data, tag=""):
    """trace item for a natural pickle (may raise OutOfDomain)"""
    return {"id": i, "prog": disassemble(data), "hex": data.hex(), "tag": tag}
