"""Reference recorder (CPython's pure-Python unpickler with inert stand-ins) and the executor for
decompiled programs.  Both produce the canonical terms / event records of spec/PickleVM.tla.

Events are canonicalised WHEN THEY HAPPEN (what the callee observes)."""
import ast
import io
import json
import pickle

from .asm import sname, tok

BUILTIN_ALIASES = ("builtins", "__builtin__", "__builtins__")


def normmod(m):
    return "builtins" if m in BUILTIN_ALIASES else m


# the extension registry of spec/PickleVM.tla (ExtRegistry): EXT1/2/4 with this code resolve through find_class
import copyreg as _copyreg  # noqa: E402

if ("verif_sink", "ext_target") not in _copyreg._extension_registry:
    _copyreg.add_extension("verif_sink", "ext_target", 64)


class Stub:
    """inert stand-in for anything a pickle can name: callable, accepts state, never raises"""

    def __new__(cls, *a, **k):
        if isinstance(cls, Stub):  # NEWOBJ: cls.__new__(cls, *args) with a stub INSTANCE as cls
            return cls._call(a, k, new=True)
        return object.__new__(cls)

    def __init__(self, log, term):
        self._log = log
        self._term = term  # ("g", m, n) | ("obj", callee, args, kwargs) | ("pers", pid)
        self._states = []
        self._li = []       # appended / extended items (the object used as a list)
        self._di = []       # [key, value] pairs set by item assignment (the object used as a dict)

    def _call(self, a, k, new=False):
        # nw: allocation through X.__new__(X, ...) (what NEWOBJ / NEWOBJ_EX do) as opposed to calling X(...): for a callee that
        # is not a class the two are different things (f.__new__(f) does not call f)
        self._log.append({"e": "call", "f": canon(self), "a": [canon(x) for x in a],
                          "kw": [[sname(n), canon(x)] for n, x in k.items()], "nw": bool(new)})
        return Stub(self._log, ("obj", self, a, k))

    def __call__(self, *a, **k):
        return self._call(a, k)

    def __setstate__(self, st):
        self._log.append({"e": "setstate", "o": canon(self), "s": canon(st)})
        self._states.append(st)

    def __reduce_ex__(self, p):
        raise TypeError("stubs are not picklable")

    def __getattr__(self, name):
        # attribute access on the stand-in for a global denotes the dotted global (module.Outer.Inner is what the
        # unpickler resolves for the name "Outer.Inner"): it is the same resolution event
        term = self.__dict__.get("_term")
        if term is None or term[0] != "g" or name.startswith("__"):
            raise AttributeError(name)
        cache = self.__dict__.setdefault("_sub", {})
        if name not in cache:
            cache[name] = Stub(self._log, ("g", term[1], term[2] + "." + name))
        self._log.append({"e": "import", "m": normmod(sname(term[1])), "n": sname(term[2] + "." + name)})
        return cache[name]

    def append(self, x):
        if self._term[0] == "g":
            raise AttributeError("append")
        self._log.append({"e": "append", "o": canon(self), "a": [canon(x)]})
        self._li.append(x)

    def extend(self, xs):
        if self._term[0] == "g":
            raise AttributeError("extend")
        xs = list(xs)
        self._log.append({"e": "append", "o": canon(self), "a": [canon(x) for x in xs]})
        self._li.extend(xs)

    def __setitem__(self, k, v):
        if self._term[0] == "g":
            raise TypeError("stand-in for a global does not support item assignment")
        self._log.append({"e": "setitem", "o": canon(self), "k": canon(k), "v": canon(v)})
        self._di.append((k, v))

    def update(self, d=(), **kw):
        for k, v in (d.items() if hasattr(d, "items") else d):
            self[k] = v
        for k, v in kw.items():
            self[k] = v

    # containers of the decompiled program may call these on a stub that stands for a dict/list
    def __hash__(self):
        return id(self)

    def __eq__(self, other):
        return self is other


def canon(v, path=()):
    if isinstance(v, (list, dict, set)) or (isinstance(v, Stub) and v._term[0] != "g"):
        if id(v) in path:
            return {"k": "cycle", "up": len(path) - path.index(id(v))}
        path = path + (id(v),)
    if isinstance(v, Stub):
        t = v._term
        if t[0] == "g":
            return {"k": "g", "m": normmod(sname(t[1])), "n": sname(t[2])}
        st = [canon(s, path) for s in v._states]
        li = [canon(x, path) for x in v._li]
        di = [[canon(a, path), canon(b, path)] for a, b in v._di]
        if t[0] == "pers":
            return {"k": "pers", "pid": canon(t[1], path), "s": st, "li": li, "di": di}
        return {"k": "obj", "f": canon(t[1], path), "a": [canon(x, path) for x in t[2]],
                "kw": [[sname(n), canon(x, path)] for n, x in t[3].items()], "s": st, "li": li, "di": di}
    if isinstance(v, (list, tuple)) and type(v) in (list, tuple):
        return {"k": type(v).__name__, "e": [canon(x, path) for x in v]}
    if type(v) is dict:
        return {"k": "dict", "e": [[canon(a, path), canon(b, path)] for a, b in v.items()]}
    if type(v) in (set, frozenset):
        return {"k": type(v).__name__,
                "e": sorted((canon(x, path) for x in v), key=lambda t: json.dumps(t, sort_keys=True))}
    if v is None or type(v) in (bool, int, float, str, bytes, bytearray):
        return {"k": "c", "v": tok(v)[1]}
    # anything else can only come out of a decompiled program that misbehaves
    return {"k": "c", "v": "other:" + type(v).__name__}


def _globals_in(v, seen=None, depth=0):
    """global stand-ins reachable from a value (terms of calls, containers)"""
    seen = seen if seen is not None else set()
    if id(v) in seen or depth > 40:
        return set()
    seen.add(id(v))
    out = set()
    if isinstance(v, Stub):
        t = v._term
        if t[0] == "g":
            out.add((normmod(t[1]), t[2].split(".")[0]))
        elif t[0] == "obj":
            for x in (t[1],) + tuple(t[2]) + tuple(t[3].values()):
                out |= _globals_in(x, seen, depth + 1)
        for x in v._states + v._li + [y for p in v._di for y in p]:
            out |= _globals_in(x, seen, depth + 1)
    elif isinstance(v, (list, tuple, set, frozenset)):
        for x in v:
            out |= _globals_in(x, seen, depth + 1)
    elif isinstance(v, dict):
        for a, b in v.items():
            out |= _globals_in(a, seen, depth + 1) | _globals_in(b, seen, depth + 1)
    return out


class _Rec(pickle._Unpickler):
    """pure-Python unpickler that records (depth, mark positions, memo keys) after every opcode"""

    def __init__(self, data):
        super().__init__(data if hasattr(data, "read") else io.BytesIO(data))
        self.log = []
        self.steps = []
        self._gc = {}
        self.binding = {}       # bare name -> module that most recently resolved a global of that name
        self.stale = False

    def check_stale(self, *values):
        for v in values:
            for m, n in _globals_in(v):
                # (the decompiler emits no import for builtins, so a builtin never re-binds a name that an import took)
                if self.binding.get(n, m) != m:
                    self.stale = True

    def find_class(self, m, n):
        if normmod(m) != "builtins":
            self.binding[n.split(".")[0]] = normmod(m)
        self.log.append({"e": "import", "m": normmod(sname(m)), "n": sname(n)})
        key = (m, n)
        if key not in self._gc:
            self._gc[key] = Stub(self.log, ("g", m, n))
        return self._gc[key]

    def persistent_load(self, pid):
        self.log.append({"e": "persid", "pid": canon(pid)})
        return Stub(self.log, ("pers", pid))

    def _rec(self, produced=True):
        if self.stack and produced:     # what the last opcode produced or touched: calls and containers being assembled
            self.check_stale(self.stack[-1])
        marks, pos = [], 0
        for frame in self.metastack:
            pos += len(frame) + 1
            marks.append(pos)
        self.steps.append({"depth": pos + len(self.stack), "marks": marks, "keys": sorted(self.memo)})


def _wrap(f, key=None):
    discards = key in (pickle.POP[0], pickle.POP_MARK[0])      # they only uncover what was already there

    def g(self):
        if key == pickle.FROZENSET[0] and "frozenset" in self.binding:
            # the one builtin the decompiler spells by its bare name on its own (`frozenset({...})` for this opcode): once an
            # import has bound that name to a global of another module, the printed name no longer denotes the builtin
            self.stale = True
        try:
            f(self)
        except pickle._Stop:
            self._rec(produced=False)       # STOP popped the result: what is left below it was not produced (or used) now
            raise
        self._rec(produced=not discards)
    return g


_Rec.dispatch = {k: _wrap(f, k) for k, f in pickle._Unpickler.dispatch.items()}


def run_ref(data):
    """-> dict(ok, steps, ev, res | exc)"""
    u = _Rec(data)
    _copyreg._extension_cache.clear()       # the machine's per-process cache of resolved extension codes: every run starts cold
    try:
        r = u.load()
        u.check_stale(r)
        return {"ok": True, "steps": u.steps, "ev": u.log, "res": canon(r), "stale": u.stale}
    except Exception as e:  # noqa: BLE001 - the reference raising IS the observation
        return {"ok": False, "steps": u.steps, "ev": u.log, "exc": type(e).__name__ + ":" + str(e)[:80]}


# ----------------------------------------------------------------------------------------------
# executing a decompiled program against the same inert stand-ins

class _Mod:
    def __init__(self, name, log, cache):
        self.__dict__["_n"], self.__dict__["_l"], self.__dict__["_c"] = name, log, cache

    def __getattr__(self, attr):
        self._l.append({"e": "import", "m": normmod(sname(self._n)), "n": sname(attr)})
        key = (self._n, attr)
        if key not in self._c:
            self._c[key] = Stub(self._l, ("g", self._n, attr))
        return self._c[key]


def run_decompiled(src, result_name="result"):
    """-> dict(ok, ev, res | exc, static)   static = what the program text contains (fallback)"""
    log, cache = [], {}
    try:
        tree = ast.parse(src)
    except (SyntaxError, ValueError, RecursionError) as e:
        return {"ok": False, "ev": [], "exc": type(e).__name__ + ":" + str(e)[:80], "static": None}

    class ImpStub(Stub):
        """builtins.__import__: the import statement calls it with (name, globals, locals, fromlist,
        level) and globals being this very environment; any other call is a call made by the pickle"""

        def __call__(self, *a, **k):
            if len(a) == 5 and a[1] is env and not k:
                return _Mod(a[0], log, cache)
            return self._call(a, k)

    env = {}
    imp = ImpStub(log, ("g", "builtins", "__import__"))
    cache[("builtins", "__import__")] = imp

    bound = set()
    for n in ast.walk(tree):
        if isinstance(n, ast.Assign):
            bound |= {t.id for t in n.targets if isinstance(t, ast.Name)}
        elif isinstance(n, ast.ImportFrom):
            bound |= {a.asname or a.name for a in n.names}
    # every name the program mentions is available as a builtin stand-in until the program itself rebinds it
    # (an import further down shadows the builtin only from there on); temporaries and results are excluded so
    # that a use before assignment still fails
    import re as _re
    free = {n.id for n in ast.walk(tree) if isinstance(n, ast.Name)}
    free = {x for x in free if x not in bound or not _re.fullmatch(r"_var\d+|result\d*", x)}

    class Unp:
        def persistent_load(self, pid):
            log.append({"e": "persid", "pid": canon(pid)})
            return Stub(log, ("pers", pid))

    bi = {"__import__": imp}
    for nm in free:
        if nm in ("UNPICKLER", "__import__"):   # `imp` plays both roles of __import__
            continue
        key = ("builtins", nm)
        cache[key] = Stub(log, ("g",) + key)
        bi[nm] = cache[key]
    env.update({"__builtins__": bi, "UNPICKLER": Unp()})
    static = static_events(tree)
    try:
        exec(compile(tree, "<decompiled>", "exec"), env)  # noqa: S102 - inert environment
    except BaseException as e:  # noqa: BLE001
        return {"ok": False, "ev": log, "exc": type(e).__name__ + ":" + str(e)[:80], "static": static}
    if result_name not in env:
        return {"ok": False, "ev": log, "exc": "NoResult:", "static": static}
    return {"ok": True, "ev": log, "res": canon(env[result_name]), "static": static}


def static_events(tree):
    """imports and calls that are textually present (used when the program cannot be executed)"""
    alias = {}
    out = []
    for n in ast.walk(tree):
        if isinstance(n, ast.ImportFrom):
            for a in n.names:
                alias[a.asname or a.name] = (n.module, a.name)
                out.append({"e": "import", "m": normmod(sname(n.module or "")), "n": sname(a.name)})
    for n in ast.walk(tree):
        if isinstance(n, ast.Call):
            f = n.func
            if isinstance(f, ast.Attribute) and f.attr == "__setstate__":
                out.append({"e": "setstate"})
            elif isinstance(f, ast.Attribute) and f.attr == "persistent_load":
                out.append({"e": "persid"})
            elif isinstance(f, ast.Name) and f.id in alias:
                out.append({"e": "call", "m": normmod(sname(alias[f.id][0])), "n": sname(alias[f.id][1])})
            elif isinstance(f, ast.Name) and not f.id.startswith("_var"):
                out.append({"e": "call", "m": "builtins", "n": sname(f.id)})
            else:
                out.append({"e": "call", "m": "?", "n": "?"})
    return out
