"""triage helper: minimal opcode sets per clause from a VERIF_DUMP file"""
import json, sys, collections
def main(path):
    by = collections.defaultdict(list)
    for ln in open(path):
        d = json.loads(ln); by[d["clause"]].append(d)
    for c, ds in by.items():
        sets = sorted({frozenset(d["ops"]) for d in ds}, key=len)
        mins = []
        for s in sets:
            if not any(m <= s for m in mins):
                mins.append(s)
        print(f"== {c}: {len(ds)} cases, {len(mins)} minimal opcode sets")
        for m in mins[:14]:
            w = min((d for d in ds if frozenset(d["ops"]) == m), key=lambda d: len(d["ops"]))
            print("   ", sorted(m), "|", " ".join(w["ops"][:24]), "|", w["hex"][:60], w["tag"])
main(sys.argv[1])
