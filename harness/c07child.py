"""Nested-unpickling probes of the safe ML environment, in one process (imports torch once).
usage: python -m harness.c07child <cases.json> <out.json>"""
import _pickle
import copy
import copyreg
import io
import json
import os
import pickle
import sys
import warnings

ORIG = (pickle.load, pickle.loads, _pickle.load, _pickle.loads, pickle.Unpickler)
RESOLVED = []
ON = [False]


def audit(name, args):
    if ON[0] and name == "pickle.find_class":
        RESOLVED.append(".".join(map(str, args[-2:])))


sys.addaudithook(audit)
sys.path.insert(0, os.path.join(os.path.dirname(os.path.abspath(__file__)), "natmods"))
warnings.filterwarnings("ignore")
import torch  # noqa: E402
import torch.storage  # noqa: E402
import verif_sink  # noqa: E402
import fickling  # noqa: E402
import fickling.hook as hook  # noqa: E402
import fickling.ml as ml  # noqa: E402
from fickling.exception import UnsafeFileError  # noqa: E402

BASE0 = copy.deepcopy(ml.ML_ALLOWLIST)
WRAP = {"lfb": torch.storage._load_from_bytes, "ploads": pickle.loads, "cloads": _pickle.loads}
ADDS = {"none": [], "loaders": ["pickle.loads", "_pickle.loads"], "loaders+other": ["pickle.loads", "_pickle.loads", "verif_sink.other"]}


def _uninstalled():
    """an allow-listed (module, name) whose top-level package cannot be imported here (chosen from the tree's own table)"""
    import importlib.util
    for m in sorted(BASE0):
        top = m.split(".")[0]
        try:
            if top.startswith("_") or importlib.util.find_spec(top) is not None:
                continue
        except Exception:  # noqa: BLE001
            continue
        names = [n for n in BASE0[m] if isinstance(n, str) and n.isidentifier()]
        if names and all(p.isidentifier() for p in m.split(".")):
            return m, names[0]
    return None


UNINSTALLED = _uninstalled()


class R:
    """object whose unpickling calls f(*args)"""

    def __init__(self, f, args):
        self.f, self.args = f, args

    def __reduce__(self):
        return self.f, self.args


def ser(obj, container):
    if container == "bare":
        return pickle.dumps(obj, 2)
    buf = io.BytesIO()
    torch.save(obj, buf, _use_new_zipfile_serialization=(container == "zip"))
    return buf.getvalue()


def build(case):
    inner = {"sinkinst": None, "dotted": None, "cross": None, "oddname": None, "extcold": None, "extwarm": None, "allowed": [torch.tensor([1.0, 2.0]), {"w": torch.zeros(2)}], "sink": R(verif_sink.hit, ("nested",)),
             "dangerous": R(os.getpid, ()), "mlonly": [__import__("datetime").date, __import__("fractions").Fraction]}[case["inner"]]
    chain = case["chain"]
    if case["inner"] in ("sinkinst", "dotted", "cross", "oddname", "extcold", "extwarm"):       # raw bytes: only a bare (pickle.loads-style) innermost level can carry them
        odd = ["{0}", "lo}ad", "{x.y}", "a b", "\u00dcn\u00ef", "%s%d", "{"][sum(len(w) for w, _c in chain) % 7].encode()
        raw = b"(S'nested'\niverif_sink\nhit\n." if case["inner"] == "sinkinst" else \
            EXT_PAYLOAD if case["inner"] in ("extcold", "extwarm") else \
            (b"ccollections\n" + odd + b"\n." if len(chain) % 2 else b"\x80\x04\x8c\x0bcollections\x8c" + bytes([len(odd)]) + odd + b"\x93.") if case["inner"] == "oddname" else \
            b"cverif_sink\nloads\n(S'nested'\ntR." if case["inner"] == "cross" else \
            b"\x80\x04\x8c\x0bcollections\x8c\x14OrderedDict.fromkeys\x93]\x85R."      # OrderedDict.fromkeys([]) by qualified name
        if chain and chain[-1][1] != "bare":
            raise ValueError("INST payload needs a bare innermost level")
        obj = raw
        for k, (w, c) in enumerate(reversed(chain)):
            obj = R(WRAP[w], (obj if k == 0 else ser(obj, c),))
        return obj if not chain else ser(obj, "bare")
    obj = inner
    # serialise from the inside out: level i+1 in container chain[i][1], handed to wrapper chain[i][0]
    for w, c in reversed(chain):
        obj = R(WRAP[w], (ser(obj, c),))
    return ser(obj, "bare")


STREAMS = {}


def stream(data, i):
    """every other case reads from ONE long-lived stream object per payload (rewound), shared with earlier cases that ran
    under other additions: what is mediated depends on the activation in force, not on who read the stream before"""
    if i % 2:
        return io.BytesIO(data)
    st = STREAMS.setdefault(data, io.BytesIO(data))
    st.seek(0)
    return st


# an application-registered extension code for a global that is NOT allow-listed (copyreg's registry is what EXT1/2/4 name)
copyreg.add_extension("verif_sink", "ext_hit", 65)      # (a name nothing else pickles: the stock pickler writes registered globals as EXT at protocol 2+)
EXT_PAYLOAD = b"\x82\x41(S'nested'\ntR."


def reset():
    pickle.load, pickle.loads, _pickle.load, _pickle.loads, pickle.Unpickler = ORIG
    copyreg.clear_extension_cache()
    ml.ML_ALLOWLIST.clear()
    ml.ML_ALLOWLIST.update(copy.deepcopy(BASE0))


def in_base(n):
    m, a = n.rsplit(".", 1)
    return m in BASE0 and a in BASE0[m]


def main():
    cases = json.load(open(sys.argv[1]))
    out = []
    for i, c in enumerate(cases):
        reset()
        try:
            data = build(c)               # built BEFORE arming, with the stock pickler
        except Exception as e:  # noqa: BLE001
            out.append({"id": i, "case": c, "built": False, "exc": type(e).__name__, "outsider": c["outsider"], "out": "not-built",
                        "resolved": [], "ran": [], "may_run": []})
            continue
        adds = ADDS[c["adds"]]
        if c["inner"] == "extwarm":       # the process has unpickled that extension code before, outside any environment
            ORIG[1](b"\x82\x41.")
        del verif_sink.calls[:]
        del RESOLVED[:]
        if adds:
            fickling.activate_safe_ml_environment(also_allow=list(adds))
        else:
            fickling.activate_safe_ml_environment()
        cm = None
        if c.get("layer") == "ml+context":
            cm = fickling.check_safety()
            cm.__enter__()
        elif c.get("layer") == "ml+armed":
            fickling.always_check_safety()
        if c.get("prelude") == "failed_allowed" and UNINSTALLED:
            m, n = UNINSTALLED
            try:        # an allow-listed global of a package that is not installed: the load ends with ImportError
                pickle.loads(b"c" + m.encode() + b"\n" + n.encode() + b"\n.")
            except BaseException:  # noqa: BLE001
                pass
        ON[0] = True
        exc = ""
        try:
            if c["entry"] == "load":
                pickle.load(stream(data, i))
            elif c["entry"] == "loads":
                pickle.loads(data)
            elif c["entry"] == "cload":
                _pickle.load(stream(data, i))
            else:
                _pickle.loads(data)
            o = "returned"
        except UnsafeFileError:
            o = "unsafe"
        except BaseException as e:  # noqa: BLE001
            o, exc = "other", type(e).__name__ + ":" + str(e)[:80]
        finally:
            ON[0] = False
            if cm is not None:
                cm.__exit__(None, None, None)
            hook.remove_hook()
            reset()
        out.append({"id": i, "case": c, "built": True, "outsider": c["outsider"], "out": o, "exc": exc,
                    "resolved": [{"n": n, "ok": in_base(n) or n in adds} for n in RESOLVED],
                    "ran": [x[0] for x in verif_sink.calls if x[0] != "getattr"],
                    "may_run": [a.rsplit(".", 1)[1] for a in adds if a.startswith("verif_sink.")]})
    json.dump(out, open(sys.argv[2], "w"))


if __name__ == "__main__":
    main()
