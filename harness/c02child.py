"""One process replaying checked loads with instrumented streams.
usage: python -m harness.c02child <cases.json> <out.json>
The stock unpickling entry points are wrapped BEFORE fickling is imported: each wrapper flips the
current stream from pickle A to pickle B (a sink call) just before delegating, so a loader that goes
back to the stream for the real load executes B."""
import _pickle
import io
import json
import os
import pickle
import sys

CUR = {"stream": None, "json": None}
RESOLVED = []


def flip():
    s = CUR["stream"]
    if s is not None:
        s.flip()


def _wrap(f):
    def w(*a, **k):
        flip()
        return f(*a, **k)
    w.__wrapped__ = f
    return w


STOCK_LOADS = _pickle.loads
pickle.load, pickle.loads = _wrap(pickle.load), _wrap(pickle.loads)
_pickle.load, _pickle.loads = _wrap(_pickle.load), _wrap(_pickle.loads)


def audit(ev, args):
    if ev == "pickle.find_class" and CUR.get("armed"):
        RESOLVED.append(tuple(args[-2:]))
    elif ev == "import" and CUR.get("armed") and args and str(args[0]).split(".")[0] == "verif_pkg":
        RESOLVED.append(("import", str(args[0])))       # a module named in the pickle is being imported
    elif ev == "open" and CUR.get("json") and args and args[0] == CUR["json"]:
        flip()          # end of the analysis: the report file is being opened


sys.addaudithook(audit)
sys.path.insert(0, os.path.join(os.path.dirname(os.path.abspath(__file__)), "natmods"))
import verif_sink  # noqa: E402
import fickling  # noqa: E402
import fickling.hook as hook  # noqa: E402
from fickling.analysis import Severity, check_safety  # noqa: E402
from fickling.context import FicklingContextManager  # noqa: E402
from fickling.exception import UnsafeFileError  # noqa: E402
from fickling.fickle import Pickled  # noqa: E402
from harness.c08child import dg, rc  # noqa: E402
import fickling.loader as _loader  # noqa: E402

_real_check = _loader.check_safety


def _check_then_flip(*a, **k):
    """the analysis has just finished: this is 'between analysis and load' (if the loader is refactored
    not to use this name the wrapper simply never fires)"""
    try:
        return _real_check(*a, **k)
    finally:
        flip()


_loader.check_safety = _check_then_flip

ORDER = [Severity.LIKELY_SAFE, Severity.POSSIBLY_UNSAFE, Severity.SUSPICIOUS, Severity.LIKELY_UNSAFE,
         Severity.LIKELY_OVERTLY_MALICIOUS, Severity.OVERTLY_MALICIOUS]
B = b"cverif_sink\nhit\n(S'B'\ntR."
FAM = {
    "data": [pickle.dumps([1, "a", {"k": (2.5, None)}], 2), pickle.dumps({"x": [1, 2, 3]}, 4), b"(lp0\nI1\naI2\na."],
    "bigdata": [b"\x80\x04B" + (2 * 1024 * 1024 + 5).to_bytes(4, "little") + b"z" * (2 * 1024 * 1024 + 5) + b".",
                b"\x80\x04]\x94(X" + (1024 * 1024 + 9).to_bytes(4, "little") + b"u" * (1024 * 1024 + 9) + b"K\x01e."],
    "unused": [b"ccollections\nOrderedDict\n)R0K\x01."],
    "dupproto": [b"\x80\x04\x80\x04K\x01.", b"K\x010\x80\x04K\x02.", b"\x80\x02\x80\x03]."],
    "sink": [b"cverif_sink\nhit\n(S'A'\ntR.", b"\x80\x02cverif_sink\nhit\nq\x00X\x01\x00\x00\x00A\x85R."],
    "getpid": [b"cos\ngetpid\n)R.", b"cposix\ngetpid\n)R."],
    "eval": [b"cbuiltins\neval\n(S'1'\ntR.", b"c__builtin__\neval\n(S'\"A\"'\ntR."],
    "float0": [pickle.dumps(1.5, 0), b"cverif_sink\nhit\n(F1.5\ntR."],
    "truncated": [b"cverif_sink\nhit\n(S'A'\ntR"[:-3], pickle.dumps([1, 2, 3], 2)[:-2]],
    "underflow": [b"cverif_sink\nhit\n(S'A'\ntR00.", b"0."],
    "nomemo": [b"cverif_sink\nhit\n(S'A'\ntRg7\n.", b"h\x05."],
    # the parser refuses the FIRST opcode (no verdict can exist) and a well-formed flagged pickle follows in the stream
    "badfirst": [b"\xff" + B, b"I0x10\n" + B, b"\xff\x80\x02cverif_sink\nhit\n(S'A'\ntR.", b"Lnope\n" + B],
    "persid": [b"cverif_sink\nhit\n(S'A'\ntRPpid\n."],
    # 8-bit strings of protocol <= 2 pickles: what the unpickler makes of them depends on the options the caller passes
    # (encoding=, errors=): a checked load hands the caller's options on
    "py2str": [b"U\x03abc.", b"(U\x02\xe9\xe8U\x01al.", b"}q\x00U\x01kU\x02\xc3\xa9s."],
    # rated like "sink" (a non-standard import and call) but the stock unpickler cannot resolve the global: an accepted load
    # that raises inside the unpickler; whatever state the loader keeps across calls has seen a load end by exception
    "loadfails": [b"cnot_a_real_module\nf\n)R.", b"\x80\x02cnot_a_real_module.sub\nThing\n)\x81."],
    # a global of a sub-module of a package that is importable but not imported yet (importing it is observable)
    "pkgsub": [b"cverif_pkg.sub\nthing\n)R.", b"\x80\x04\x8c\rverif_pkg.sub\x8c\x05thing\x93)R.", b"(iverif_pkg.sub\nthing\n."],
}


def purge():
    """forget the observable package, so that importing it (again) during the armed call is an event"""
    for m in [k for k in sys.modules if k.split(".")[0] == "verif_pkg"]:
        del sys.modules[m]


class Flip(io.BytesIO):
    """seekable stream serving A until flipped, then B from the start"""

    def __init__(self, a):
        super().__init__(a)
        self.flipped = False

    def flip(self):
        if not self.flipped:
            self.flipped = True
            self.seek(0)
            self.truncate(0)
            self.write(B)
            self.seek(0)


class NoSeek:
    """non-seekable byte stream (read / readline / readinto only)"""

    def __init__(self, a):
        self._b = io.BytesIO(a)
        self.flipped = False

    def flip(self):
        if not self.flipped:
            self.flipped = True
            self._b = io.BytesIO(B)

    def read(self, n=-1):
        return self._b.read(n)

    def readline(self, n=-1):
        return self._b.readline(n)

    def readinto(self, b):
        return self._b.readinto(b)

    def seekable(self):
        return False

    def readable(self):
        return True


def reset():
    hook.remove_hook()      # back to the (wrapped) originals captured by fickling at import


def verdict_of(a):
    try:
        return ORDER.index(check_safety(Pickled.load(a)).severity)
    except Exception:  # noqa: BLE001
        return 9


def run_case(c, idx, tmp):
    reset()
    fam = FAM[c["fam"]]
    a = fam[idx % len(fam)]
    v = verdict_of(a)
    # unpickling options of the caller (forwarded by every way of arming the check)
    kw = [{}, {"encoding": "bytes"}, {"encoding": "latin-1", "errors": "strict", "fix_imports": True}][(idx // 3) % 3]
    try:
        stock = dg(rc(STOCK_LOADS(a, **kw))) if v != 9 else ""
    except Exception:  # noqa: BLE001
        stock = "stock-raises"
    src = a if c["kind"] == "bytes" else (Flip(a) if c["kind"] == "seekable" else NoSeek(a))
    CUR["stream"] = None if c["kind"] == "bytes" else src
    CUR["json"] = os.path.join(tmp, f"rep{idx}.json") if c["arm"] == "loader_json" else None
    purge()
    del verif_sink.calls[:]
    del RESOLVED[:]
    CUR["armed"] = True
    out, info, res = "returned", -1, None
    try:
        if c["arm"] == "loader":
            res = fickling.load(src, max_acceptable_severity=ORDER[c["t"]], **kw)
        elif c["arm"] == "loader_json":
            res = fickling.load(src, max_acceptable_severity=ORDER[c["t"]], json_output_path=CUR["json"], **kw)
        elif c["arm"] == "hook":
            fickling.always_check_safety()
            res = pickle.load(src, **kw)
        elif c["arm"] == "hook_after_context":     # the global hook stays armed after a context was used on top of it
            fickling.always_check_safety()
            with fickling.check_safety():
                pass
            res = pickle.load(src, **kw)
        elif c["arm"] == "context":
            with fickling.check_safety():
                res = pickle.load(src, **kw)
        else:
            with FicklingContextManager(max_acceptable_severity=ORDER[c["t"]]):
                res = pickle.load(src, **kw)
    except UnsafeFileError as e:
        out = "unsafe"
        name = e.info.get("severity") if isinstance(e.info, dict) else None
        info = [s.name for s in ORDER].index(name) if name in [s.name for s in ORDER] else -2
    except BaseException as e:  # noqa: BLE001
        out = "other"
        exc = type(e).__name__
    finally:
        CUR["armed"] = False
        CUR["stream"] = None
        CUR["json"] = None
        reset()
    calls = [x for x in verif_sink.calls if x[0] == "hit"]
    return {"arm": c["arm"], "kind": c["kind"], "t": c["t"], "fam": c["fam"], "v": v, "out": out, "info": info,
            "resolved": len(RESOLVED) + sum(1 for x in verif_sink.calls if x[0].endswith("-imported")), "ranA": sum(1 for x in calls if x[1] == ("A",)), "ranB": sum(1 for x in calls if x[1] == ("B",)),
            "eq_stock": bool(out == "returned" and dg(rc(res)) == stock), "kw": sorted(kw), "stock_raises": stock == "stock-raises", "hex": a.hex()[:120],
            "exc": locals().get("exc", "")}


def main():
    cases = json.load(open(sys.argv[1]))
    tmp = os.path.dirname(sys.argv[2])
    out = []
    for i, c in enumerate(cases):
        r = run_case(c, i + c.get("rot", 0), tmp)
        r["id"] = i
        out.append(r)
    json.dump(out, open(sys.argv[2], "w"))


if __name__ == "__main__":
    main()
