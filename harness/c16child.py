"""PyTorch payload insertion on generated models (imports torch).
usage: python -m harness.c16child <in.json> <out.json>  in: {"scratch", "seed", "reps", "cases": [{kind, payload, overwrite}]}"""
import hashlib
import json
import os
import random
import shutil
import sys
import warnings
import zipfile

sys.path.insert(0, os.path.join(os.path.dirname(os.path.abspath(__file__)), "natmods"))
warnings.filterwarnings("ignore")
import torch  # noqa: E402
import verif_sink  # noqa: E402
from fickling.fickle import Pickled  # noqa: E402
from fickling.pytorch import PyTorchModelWrapper  # noqa: E402

PAY = {"plain": "__import__('verif_sink').hit('C16')",
       "newline": "import verif_sink\nverif_sink.hit('C16')\n",
       "nonascii": "note = 'π ≠ 3'; __import__('verif_sink').hit('C16')",
       "quotes": "s = \"it's\" + 'a\"b' + '\\\\'; __import__('verif_sink').hit('C16')",
       # length boundaries of the text opcodes, in characters and in encoded bytes (at most 255 characters but more than 255
       # bytes; exactly 255 / 256 bytes; more than 255 characters)
       "len_chars_lt_bytes": "note = '" + "\u4e2d" * 70 + "'; __import__('verif_sink').hit('C16')",
       "len_255": ("__import__('verif_sink').hit('C16')  # " + "x" * 300)[:255],
       "len_256": ("__import__('verif_sink').hit('C16')  # " + "\u00e9" * 300)[:200] + "y" * 11,
       "len_long": "__import__('verif_sink').hit('C16')  # " + "z" * 70000}
DT = [torch.float32, torch.float64, torch.float16, torch.int64, torch.int32, torch.uint8, torch.bool, torch.bfloat16]


def tensor(rng, zero=False):
    dt = rng.choice(DT)
    shape = rng.choice([(0,), (2, 0, 3), (0, 4)]) if zero else rng.choice([(), (3,), (2, 3), (1, 2, 2), (4, 1)])
    if dt == torch.bool:
        return torch.zeros(shape, dtype=dt)
    return (torch.arange(max(1, int(torch.tensor(shape).prod()) if shape else 1)).reshape(shape if shape else ()).to(dt)
            if 0 not in shape else torch.zeros(shape, dtype=dt))


def make(kind, rng):
    if kind == "module":
        return torch.nn.Linear(rng.randrange(1, 4), rng.randrange(1, 4))
    if kind == "sequential":
        return torch.nn.Sequential(torch.nn.Linear(2, 3), torch.nn.ReLU(), torch.nn.Linear(3, 1))
    if kind == "deep_module":      # > 256 memo entries: the pickler switches to LONG_BINPUT
        return torch.nn.Sequential(*[torch.nn.Linear(3, 3) for _ in range(14)])
    if kind == "many_tensors":
        return [torch.full((2,), float(i)) for i in range(60)]
    if kind == "state_dict":
        return torch.nn.Linear(3, 2).state_dict()
    if kind == "nested":
        return {"a": [tensor(rng), (tensor(rng), {"b": tensor(rng)})], "n": 3, "s": "text", "l": [1.5, None]}
    if kind == "zero_size":
        return {"z": tensor(rng, True), "w": tensor(rng), "z2": [tensor(rng, True)], "lin": torch.nn.Linear(4, 0).state_dict()}
    if kind == "shared_storage":
        base = torch.arange(12.0)
        return {"v1": base[:6], "v2": base[6:], "same": base, "view": base.view(3, 4)}
    return [tensor(rng) for _ in range(6)]


def equal(a, b):
    if isinstance(a, torch.Tensor):
        return isinstance(b, torch.Tensor) and a.dtype == b.dtype and a.shape == b.shape and torch.equal(a, b)
    if isinstance(a, torch.nn.Module):
        return isinstance(b, torch.nn.Module) and type(a) is type(b) and equal(dict(a.state_dict()), dict(b.state_dict()))
    if isinstance(a, dict):
        return isinstance(b, dict) and list(a) == list(b) and all(equal(a[k], b[k]) for k in a)
    if isinstance(a, (list, tuple)):
        return type(a) is type(b) and len(a) == len(b) and all(equal(x, y) for x, y in zip(a, b))
    return type(a) is type(b) and a == b


def sha(p):
    return hashlib.sha256(open(p, "rb").read()).hexdigest()


def members(p):
    with zipfile.ZipFile(p) as z:
        return [(i.filename, z.read(i.filename)) for i in z.infolist()]


def one(case, rng, d, idx):
    work = os.path.join(d, f"w{idx}")
    os.makedirs(work)
    obj = make(case["kind"], rng)
    src, dst = os.path.join(work, "model.pt"), os.path.join(work, "model_injected.pt")
    # the pickle protocol of the model pickle is a choice of whoever saved the file (2 is torch's default; 4 and 5 frame
    # the pickle, so inserting the call has to keep the announced frame length right)
    torch.save(obj, src, pickle_protocol=(2, 4, 5, 1)[idx % 4])       # (1: the model pickle has no PROTO header at all)
    keep = os.path.join(d, f"keep{idx}.pt")
    shutil.copy(src, keep)
    h0 = sha(src)
    min_ = members(src)
    payload = PAY[case["payload"]]
    rec = {"case": case, "overwrite": case["overwrite"], "injected_ok": False, "exc": "", "names_in": [n for n, _ in min_], "names_out": [],
           "same": [False], "pkl_index": 1, "input_same": False, "input_is_injected": False, "stray": [], "ran": -1, "model_equal": False, "loaded": False}
    try:
        if idx % 2:         # both calling conventions of the documented signature (payload, output_path, injection, overwrite)
            PyTorchModelWrapper(src).inject_payload(payload, dst, "insertion", case["overwrite"])
        else:
            PyTorchModelWrapper(src).inject_payload(payload, dst, injection="insertion", overwrite=case["overwrite"])
        rec["injected_ok"] = True
    except Exception as e:  # noqa: BLE001
        rec["exc"] = (type(e).__name__ + " " + str(e)[:60]).replace('"', "'")
        return rec
    result = src if case["overwrite"] else dst
    mout = members(result) if os.path.exists(result) else []
    rec["names_out"] = [n for n, _ in mout]
    pk = [i for i, (n, _) in enumerate(min_) if n.endswith("/data.pkl")][0]
    rec["pkl_index"] = pk + 1
    lib = Pickled.load(min_[pk][1])
    lib.insert_python_exec(payload)
    same = []
    for i, (n, b) in enumerate(min_):
        if i < len(mout):
            same.append(mout[i][1] == (lib.dumps() if i == pk else b))
        else:
            same.append(False)
    rec["same"] = same
    rec["input_same"] = sha(src) == h0
    rec["input_is_injected"] = bool(case["overwrite"] and mout and [n for n, _ in mout] == rec["names_in"] and mout[pk][1] == lib.dumps())
    allowed = {"model.pt"} | (set() if case["overwrite"] else {"model_injected.pt"})
    rec["stray"] = sorted(set(os.listdir(work)) - allowed)
    if not case["overwrite"] and rec["same"][pk]:
        # second injection from the same unmodified input with a fresh wrapper: still "original + one call"
        dst2 = os.path.join(work, "model_injected.pt")
        os.remove(dst2)
        try:
            PyTorchModelWrapper(src).inject_payload(payload, dst2, injection="insertion", overwrite=False)
            m2 = members(dst2)
            if [n for n, _ in m2] != rec["names_in"] or m2[pk][1] != lib.dumps():
                rec["same"][pk] = False
        except Exception as e:  # noqa: BLE001
            rec["injected_ok"], rec["exc"] = False, "second injection: " + type(e).__name__
            return rec
    del verif_sink.calls[:]
    try:
        back = torch.load(result, weights_only=False)
        rec["loaded"] = True
        rec["ran"] = sum(1 for c in verif_sink.calls if c[0] == "hit" and c[1] == ("C16",))
        rec["model_equal"] = bool(equal(obj, back))
    except Exception as e:  # noqa: BLE001
        rec["exc"] = (type(e).__name__ + " " + str(e)[:60]).replace('"', "'")
    return rec


def main():
    spec = json.load(open(sys.argv[1]))
    d = spec["scratch"]
    os.makedirs(d, exist_ok=True)
    rng = random.Random(spec["seed"])
    out = []
    for r in range(spec["reps"]):
        for c in spec["cases"]:
            rec = one(c, rng, d, len(out))
            rec["id"] = len(out)
            out.append(rec)
    json.dump(out, open(sys.argv[2], "w"))


if __name__ == "__main__":
    main()
