"""fresh process (own PYTHONHASHSEED): answer every query for every pickle of the pool.
usage: python -m harness.c13child <pool.json> <out.json>   pool = [hex, ...]"""
import json
import sys

from fickling.fickle import Pickled

from .queries import QUERIES, ask


def main():
    pool = json.load(open(sys.argv[1]))
    out = {}
    if len(sys.argv) > 3 and sys.argv[3] == "reverse":      # history of the process must not matter either
        pool = pool[::-1]
    for hx in pool:
        data = bytes.fromhex(hx)
        out[hx] = {}
        for q in QUERIES:
            try:
                p = Pickled.load(data)
            except Exception as e:  # noqa: BLE001
                out[hx][q] = "load-exc:" + type(e).__name__
                continue
            out[hx][q] = ask(p, q)
    json.dump(out, open(sys.argv[2], "w"))


if __name__ == "__main__":
    main()
