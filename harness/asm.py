"""Assembler / disassembler between specification opcodes (JSON records used by spec/PickleVM.tla)
and pickle bytes.  One spec op <-> one pickle opcode, so per-opcode stepping traces line up.

Spec op forms:
  {"o":"CONST","ty":..,"v":..,"h":..,"s":..}   constant push (any of the ~25 constant opcodes)
  {"o":"GLOBAL","m":..,"n":..} {"o":"INST","m":..,"n":..} {"o":"PERSID","ty","v","h","s"}
  {"o":"PUT","a":k} {"o":"GET","a":k} {"o":"PROTO","a":n}  {"o":"FRAME"}
  {"o":<NAME>}                                  everything else (1-byte opcodes)
"""
import ast
import hashlib
import io
import pickletools
import struct

CODE = {o.name: o.code.encode("latin-1") for o in pickletools.opcodes}

CONST_OPS = {
    "INT", "BININT", "BININT1", "BININT2", "LONG", "LONG1", "LONG4", "STRING", "BINSTRING",
    "SHORT_BINSTRING", "BINBYTES", "SHORT_BINBYTES", "BINBYTES8", "BYTEARRAY8", "NONE", "NEWTRUE",
    "NEWFALSE", "UNICODE", "SHORT_BINUNICODE", "BINUNICODE", "BINUNICODE8", "FLOAT", "BINFLOAT",
}
PUT_OPS = {"PUT", "BINPUT", "LONG_BINPUT"}
GET_OPS = {"GET", "BINGET", "LONG_BINGET"}


def sname(x: str) -> str:
    """text as it enters the specification (module / attribute / keyword names)"""
    if isinstance(x, str) and x.isascii() and x.isprintable() and '"' not in x and "\\" not in x and len(x) <= 60:
        return x
    return "#" + hashlib.sha1(repr(x).encode("utf-8", "surrogatepass")).hexdigest()[:12]


def tok(value):
    """(ty, v, h, s) for a constant"""
    ty = type(value).__name__
    rep = repr(value) if isinstance(value, float) else ascii(value)
    if len(rep) > 48 or "\\" in rep or '"' in rep:
        rep = "#%s/%d" % (hashlib.sha1(rep.encode()).hexdigest()[:12], len(rep))
    v = f"{ty}:{rep}"
    if isinstance(value, (bool, int)):
        h = f"n:{int(value)}"
    elif isinstance(value, float):
        if value != value:
            h = "nan"
        elif value in (float("inf"), float("-inf")):
            h = f"n:{value!r}"
        elif value == int(value):
            h = f"n:{int(value)}"
        else:
            h = f"n:{value!r}"
    elif value is None:
        h = "none"
    else:
        h = {"str": "s:", "bytes": "b:", "bytearray": "ba:"}.get(ty, ty + ":") + rep
    s = sname(value) if isinstance(value, str) else ""
    return ty, v, h, s


def const_op(value):
    ty, v, h, s = tok(value)
    return {"o": "CONST", "ty": ty, "v": v, "h": h, "s": s}


def value_of(op):
    """python value of a CONST op whose token is reconstructable"""
    ty, rep = op["v"].split(":", 1)
    if rep.startswith("#"):
        raise ValueError("token is a digest: " + op["v"])
    if ty == "float":
        return float(rep)
    val = ast.literal_eval(rep)
    if ty == "bytearray":
        return bytearray(val)
    return val


# ----------------------------------------------------------------------------------------------
# spec ops -> bytes

def _enc_const(value, variant):
    """all 1-opcode encodings of a constant; `variant` picks one (mod number of encodings)"""
    encs = []
    if value is None:
        encs = [b"N"]
    elif value is True or value is False:
        encs = [b"\x88" if value else b"\x89", b"I01\n" if value else b"I00\n"]
    elif isinstance(value, int):
        if 0 <= value < 256:
            encs.append(b"K" + bytes([value]))
        if 0 <= value < 65536:
            encs.append(b"M" + struct.pack("<H", value))
        if -2**31 <= value < 2**31:
            encs.append(b"J" + struct.pack("<i", value))
        encs.append(b"I%d\n" % value)
        encs.append(b"L%dL\n" % value)
        nb = (value.bit_length() >> 3) + 1 if value else 0
        raw = value.to_bytes(nb, "little", signed=True) if value else b""
        if len(raw) < 256:
            encs.append(b"\x8a" + bytes([len(raw)]) + raw)
        encs.append(b"\x8b" + struct.pack("<i", len(raw)) + raw)
    elif isinstance(value, float):
        encs = [b"G" + struct.pack(">d", value)]          # FLOAT (text) is unsupported by fickling
    elif isinstance(value, str):
        u = value.encode("utf-8", "surrogatepass")
        if len(u) < 256:
            encs.append(b"\x8c" + bytes([len(u)]) + u)
        encs.append(b"X" + struct.pack("<I", len(u)) + u)
        encs.append(b"\x8d" + struct.pack("<Q", len(u)) + u)
        if "\n" not in value and "\\" not in value and all(ord(c) < 0x10000 for c in value) and value.isascii():
            encs.append(b"V" + value.encode("raw-unicode-escape") + b"\n")
    elif isinstance(value, bytearray):
        encs = [b"\x96" + struct.pack("<Q", len(value)) + bytes(value)]
    elif isinstance(value, bytes):
        if len(value) < 256:
            encs.append(b"C" + bytes([len(value)]) + value)
        encs.append(b"B" + struct.pack("<I", len(value)) + value)
        encs.append(b"\x8e" + struct.pack("<Q", len(value)) + value)
    else:
        raise ValueError(f"cannot encode constant {value!r}")
    return encs[variant % len(encs)]


def _enc_one(op, variant):
    o = op["o"]
    if o == "CONST":
        return _enc_const(value_of(op), variant)
    if o == "GLOBAL":
        return b"c" + op["m"].encode() + b"\n" + op["n"].encode() + b"\n"
    if o == "INST":
        return b"i" + op["m"].encode() + b"\n" + op["n"].encode() + b"\n"
    if o == "PERSID":
        return b"P" + op["s"].encode("ascii") + b"\n"
    if o == "PUT":
        k = op["a"]
        encs = [b"p%d\n" % k, b"r" + struct.pack("<I", k)]
        if k < 256:
            encs.insert(0, b"q" + bytes([k]))
        return encs[variant % len(encs)]
    if o == "GET":
        k = op["a"]
        encs = [b"g%d\n" % k, b"j" + struct.pack("<I", k)]
        if k < 256:
            encs.insert(0, b"h" + bytes([k]))
        return encs[variant % len(encs)]
    if o == "PROTO":
        return b"\x80" + bytes([op["a"]])
    if o == "EXT":          # one spec opcode, three encodings of the same extension code
        k = op["a"]
        encs = [b"\x83" + struct.pack("<H", k), b"\x84" + struct.pack("<i", k)]
        if k < 256:
            encs.insert(0, b"\x82" + bytes([k]))
        return encs[variant % len(encs)]
    if o == "FRAME":
        return None  # patched below
    return CODE[o]


def assemble(ops, variants=None):
    """bytes for a spec program.  variants: per-op integer picking the encoding (default 0).
    A FRAME covers everything up to the next FRAME (or the end)."""
    parts = []
    for i, op in enumerate(ops):
        parts.append(_enc_one(op, variants[i] if variants else 0))
    for i in range(len(parts) - 1, -1, -1):
        if parts[i] is None:
            n = 0
            for j in range(i + 1, len(parts)):
                if ops[j]["o"] == "FRAME":
                    break
                n += len(parts[j])
            parts[i] = b"\x95" + struct.pack("<Q", n)
    return b"".join(parts)


# ----------------------------------------------------------------------------------------------
# bytes -> spec ops

class OutOfDomain(Exception):
    pass


def disassemble(data):
    """spec ops of the FIRST pickle in data (up to and including STOP)."""
    ops = []
    for info, arg, _pos in pickletools.genops(io.BytesIO(data)):
        name = info.name
        if name in ("NONE", "NEWTRUE", "NEWFALSE"):
            ops.append(const_op({"NONE": None, "NEWTRUE": True, "NEWFALSE": False}[name]))
        elif name in CONST_OPS:
            if name in ("STRING", "BINSTRING", "SHORT_BINSTRING") and not (isinstance(arg, str) and arg.isascii()):
                raise OutOfDomain("non-ASCII 8-bit string opcode")
            ops.append(const_op(arg))
        elif name in PUT_OPS:
            ops.append({"o": "PUT", "a": int(arg)})
        elif name in GET_OPS:
            ops.append({"o": "GET", "a": int(arg)})
        elif name in ("GLOBAL", "INST"):
            m, n = arg.split(" ", 1)
            if sname(m) != m or sname(n) != n:
                raise OutOfDomain("exotic global name")
            ops.append({"o": name, "m": m, "n": n})
        elif name == "PERSID":
            ty, v, h, s = tok(arg)
            ops.append({"o": "PERSID", "ty": ty, "v": v, "h": h, "s": s})
        elif name == "PROTO":
            ops.append({"o": "PROTO", "a": int(arg)})
        elif name in ("EXT1", "EXT2", "EXT4"):
            ops.append({"o": "EXT", "a": int(arg)})
        else:
            ops.append({"o": name})
    return ops


def opnames(ops):
    return [o["o"] for o in ops]
