"""Replay hook-lifecycle histories on the real modules in a dedicated process.
usage: python -m harness.c12child <hists.json> <out.json>"""
import io
import json
import os
import sys

import _pickle
import pickle

ORIG = (pickle.load, pickle.loads, _pickle.load, _pickle.loads)      # before fickling is imported
ORIG_UNPICKLER = pickle.Unpickler

sys.path.insert(0, os.path.join(os.path.dirname(os.path.abspath(__file__)), "natmods"))
import verif_sink  # noqa: E402
import fickling  # noqa: E402,F401
import fickling.hook as hook  # noqa: E402
from fickling.exception import UnsafeFileError  # noqa: E402

FLAGGED = b"cverif_sink\nhit\n(S'probe'\ntR."
ADDPROBE = b"ccollections\nCounter\n."            # permitted only by an activation whose additions name it
MLONLY = b"(cfractions\nFraction\ncdatetime\ndate\nl."      # LIKELY_SAFE for the static check, not on the ML allowlist
ADD = ["verif_nat.Plain", "collections.Counter"]


def reset():
    pickle.load, pickle.loads, _pickle.load, _pickle.loads = ORIG
    pickle.Unpickler = ORIG_UNPICKLER


def probe(i, data=FLAGGED):
    n0 = len(verif_sink.calls)
    try:
        if i == 0:
            pickle.load(io.BytesIO(data))
        elif i == 1:
            pickle.loads(data)
        elif i == 2:
            _pickle.load(io.BytesIO(data))
        else:
            _pickle.loads(data)
        out = "returned"
    except UnsafeFileError:
        out = "refused"
    except Exception as e:  # noqa: BLE001
        out = "error:" + type(e).__name__
    ran = len(verif_sink.calls) > n0
    return out, ran


def observe():
    cur = (pickle.load, pickle.loads, _pickle.load, _pickle.loads)
    pr = [probe(i) for i in range(4)]
    ml = [probe(i, MLONLY) for i in range(4)]
    ad = [probe(i, ADDPROBE) for i in range(4)]
    return {"addblocks": [o == "refused" for o, _r in ad], "mlblocks": [o == "refused" for o, _r in ml], "blocks": [o == "refused" and not r for o, r in pr], "orig": [c is o for c, o in zip(cur, ORIG)],
            "probe": [o + ("+ran" if r else "") for o, r in pr]}


def relaxed_load():
    """the explicit loader with a relaxed threshold on the very bytes of the flagged probe: a caller's own decision for that one
    call; it is not part of the hook life cycle and changes nothing about what an armed check or a context refuses later"""
    from fickling.analysis import Severity
    for data in (FLAGGED, MLONLY, ADDPROBE):
        try:
            fickling.load(io.BytesIO(data), max_acceptable_severity=Severity.OVERTLY_MALICIOUS)
        except Exception:  # noqa: BLE001
            pass


def replay(hist, relaxed=0):
    reset()
    stack, steps, pending = [], [], []
    if relaxed:
        relaxed_load()
    for op in hist:
        exc = ""
        try:
            if op == "arm":
                fickling.always_check_safety()
            elif op == "activate":
                fickling.activate_safe_ml_environment()
            elif op == "activate_add":
                fickling.activate_safe_ml_environment(also_allow=ADD)
            elif op == "remove":
                hook.remove_hook()
            elif op == "new":            # the manager is constructed now and entered by a later "enter"
                pending.append(fickling.check_safety())
            elif op == "enter":
                cm = pending.pop(0) if pending else fickling.check_safety()
                cm.__enter__()
                stack.append(cm)
            elif op == "enter_t":        # a manager with an explicit threshold (below the flagged probe's severity)
                from fickling.analysis import Severity
                from fickling.context import FicklingContextManager
                cm = FicklingContextManager(max_acceptable_severity=Severity.SUSPICIOUS)
                cm.__enter__()
                stack.append(cm)
            elif op == "exit":
                stack.pop().__exit__(None, None, None)
            elif op == "exit_exc":
                e = ValueError("boom")
                stack.pop().__exit__(ValueError, e, None)
        except Exception as e:  # noqa: BLE001
            exc = type(e).__name__
        if relaxed == 2:
            relaxed_load()
        st = observe()
        st["op"] = op
        st["exc"] = exc
        steps.append(st)
    reset()
    return steps


def main():
    hists = json.load(open(sys.argv[1]))
    out = [{"id": i, "hist": h, "steps": replay(h, relaxed=i % 3)} for i, h in enumerate(hists)]
    json.dump(out, open(sys.argv[2], "w"))


if __name__ == "__main__":
    main()
