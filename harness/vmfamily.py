"""Pipeline shared by the program-space properties C03 C04 C05 C09 C19:
   TLC generates typed opcode programs (spec/PickleGen + MC_<profile>), the harness instantiates
   them (vocabulary, encodings), records CPython's unpickler and fickling on the bytes, and TLC
   validates every record against spec/VMTrace.tla.  A property's check looks at its own clause."""
import concurrent.futures as cf
import json
import os
import pickle

from . import genvalues, rec_vm, tlc
from .asm import OutOfDomain, assemble
from .core import finish
from .tlc import MachineryError

GEN_CFG = open(os.path.join(tlc.SPEC, "gen.cfg.tmpl")).read()

# (module, name, category) -- every module must be classified in spec/Verdict.tla
VOCAB = [
    ("builtins", "eval", "builtins"), ("builtins", "exec", "builtins"), ("builtins", "compile", "builtins"),
    ("builtins", "open", "builtins"), ("builtins", "getattr", "builtins"), ("builtins", "__import__", "builtins"),
    ("__builtin__", "eval", "builtins"), ("__builtin__", "set", "builtins"), ("builtins", "print", "builtins"),
    ("os", "system", "dangerous"), ("posix", "system", "dangerous"), ("nt", "system", "dangerous"),
    ("subprocess", "Popen", "dangerous"), ("sys", "exit", "dangerous"), ("socket", "socket", "dangerous"),
    ("shutil", "rmtree", "dangerous"), ("urllib.request", "urlopen", "dangerous"), ("torch.hub", "load", "dangerous"),
    ("dill", "loads", "dangerous"), ("dill._dill", "_load_type", "dangerous"), ("code", "interact", "dangerous"),
    ("os.path", "join", "dangerous"), ("os", "eval", "dangerous"),
    ("collections", "OrderedDict", "benign_std"), ("datetime", "date", "benign_std"),
    ("fractions", "Fraction", "benign_std"), ("collections", "eval", "benign_std"), ("collections", "open", "benign_std"),
    ("operator", "getitem", "benign_std"), ("operator", "attrgetter", "benign_std"), ("operator", "add", "benign_std"),
    ("verif_sink", "hit", "nonstd"), ("numpy", "dtype", "nonstd"), ("not_a_real_module", "f", "nonstd"),
    ("pkg.sub", "thing", "nonstd"), ("verif_sink", "eval", "nonstd"), ("verif_sink", "load", "nonstd"),
    ("torch", "load", "nonstd"), ("torch.storage", "_load_from_bytes", "nonstd"),
    ("numpy.testing._private.utils", "runstring", "nonstd"), ("numpy.core.multiarray", "_reconstruct", "nonstd"),
    ("torch.serialization", "load", "nonstd"), ("torch.jit", "load", "nonstd"), ("operator.impl", "getitem", "nonstd"),
    ("time", "time", "benign_std"), ("itertools", "count", "benign_std"), ("marshal", "loads", "benign_std"),
    ("_io", "BytesIO", "benign_std"), ("numpy.testing._private.utils.x", "runstring", "nonstd"),
    ("commands", "getoutput", "nonstd"), ("UserDict", "UserDict", "nonstd"), ("cPickle", "loads", "nonstd"),
    ("urllib2", "urlopen", "nonstd"), ("Queue", "Queue", "nonstd"), ("__builtin__", "getattr", "builtins"),
    ("io", "open", "benign_std"), ("_io", "open", "benign_std"),      # the standard library's alias of builtins.open
    # qualified names (followed from the module by attribute access): the callee is computed
    ("glob", "os.system", "benign_std"), ("shlex", "os.getpid", "benign_std"), ("collections", "OrderedDict.fromkeys", "benign_std"),
    ("datetime", "date.today", "benign_std"),
    ("builtins", "frozenset", "builtins"), ("builtins", "bytearray", "builtins"), ("builtins", "list", "builtins"),
    ("builtins", "dict", "builtins"), ("builtins", "tuple", "builtins"), ("builtins", "object", "builtins"),
    ("verif_sink", "frozenset", "nonstd"), ("collections", "set", "benign_std"), ("verif_sink", "ext_target", "nonstd"),
]
# names that the decompiler or some rule could special-case (builtin constructors, the evalish four, attribute helpers):
# every SHORT shape that makes a call is instantiated with each of them, not only with the rotating vocabulary entry
SPECIAL = [("builtins", "set"), ("builtins", "frozenset"), ("builtins", "bytearray"), ("builtins", "list"), ("builtins", "dict"),
           ("builtins", "tuple"), ("builtins", "object"), ("builtins", "eval"), ("builtins", "getattr"), ("builtins", "__import__"),
           ("verif_sink", "frozenset"), ("collections", "set")]
SECOND = [("collections", "OrderedDict"), ("verif_sink", "other"), ("builtins", "getattr"), ("os", "getpid"),
          ("collections", "deque"), ("datetime", "date")]


REGRESSION = [      # inputs of test/test_crashes.py (issues 22, numpy poly1d, POP of a MARK)
    b"\x80\x04\x95\x82\x00\x00\x00\x00\x00\x00\x00(\x8c\x05numpy\x8c\x06poly1d\x93\x94\x8c\x05numpy\x8c\x04size\x93\x94\x8c\x05numpy\x8c\x0c__builtins__\x93\x94h\x00N\x85R\x94h\x03\x94h\x02\x94\x8c\x04eval\x8c\x04eval\x86\x94\x8c\x05numpy\x8c\x06poly1d\x93\x94.",
    b"(c__builtin__\nexec\nS'print(1)'\no0N.", b"(I1\n(I2\n0I3\nt.", b"\x80\x02(K\x010K\x02.",
    # in-band bytearrays of protocol 5 (BYTEARRAY8: refused as coded; if it is ever accepted the value is a bytearray)
    pickle.dumps(bytearray(b"ab"), 5), pickle.dumps([bytearray(b"x"), b"x"], 5), pickle.dumps({"k": bytearray()}, 5),
    # FROZENSET after a global named `frozenset` of another module was imported (found by the thorough tier's mixed profile:
    # the decompiler's own `frozenset({...})` then calls the imported global; recorded under the shadowed-name findings)
    bytes.fromhex("6376657269665f73696e6b0a6f746865720a6376657269665f73696e6b0a6f746865720a5666726f7a656e7365740a4e876376657269665f73696e6b0a66726f7a656e7365740a8004872891512930852e"),
    bytes.fromhex("4e636f730a6765747069640a6376657269665f73696e6b0a66726f7a656e7365740a32636f730a6765747069640a4e94282891951e0000000000000070350a70300a856976657269665f73696e6b0a66726f7a656e7365740a2e"),
    # containers filled in MORE THAN ONE batch and referenced again afterwards (the pickler batches 1000 items; hand-assembled
    # here with one item per batch): every later reference denotes the container with all batches
    b"]\x94(K\x01e(K\x02eh\x00\x86.", b"]\x94K\x01a(K\x02K\x03eh\x00h\x00\x87.", b"]\x94(K\x01e2(K\x02e\x86.",
    b"(]\x94(K\x01e(K\x02eh\x00l.", b"}\x94(K\x01K\x02u(K\x03K\x04uh\x00\x86.", b"\x80\x04\x8f\x94(K\x01\x90(K\x02\x90h\x00\x86.",
    b"]\x94(K\x01e(K\x02e(K\x03eh\x00\x85\x94h\x00h\x01\x86.",
    pickle.dumps([list(range(1002))] * 2, 2), pickle.dumps({"a": list(range(2001)), "b": None}, 4),
    # a container handed to a call and afterwards made to hold the call's own result (known finding KF-C05-arg-holds-own-result)
    b"}2Q\x94K\x01s0N.", bytes.fromhex("8c0474696d65950000000000000000953c000000000000004e6374696d650a74696d650a8f7d3251948f636275696c74696e730a676574617474720a8670350a73636275696c74696e730a676574617474720a2e"),
    b"cverif_sink\nfrozenset\n(K\x01\x91.", b"cverif_sink\nfrozenset\n(K\x01\x91\x85R.",
]
SHADOWMODS = ["collections", "importlib", "gzip", "datetime", "functools", "string"]


def generate(ctx, profile, maxlen, *, simulate=None, depth=None, minstop=0, maxdepth=8, require=(), reqmods=(), emptybatch=False):
    def tlaset(xs):
        return "{" + ", ".join('"%s"' % x for x in xs) + "}"
    cfg = (GEN_CFG.replace("@MAXLEN@", str(maxlen)).replace("@MINSTOP@", str(minstop)).replace("@MAXDEPTH@", str(maxdepth))
           .replace("@REQUIRE@", tlaset(require)).replace("@REQMODS@", tlaset(reqmods))
           .replace("@REQEMPTY@", "TRUE" if emptybatch else "FALSE"))
    if simulate:   # walks: keep the cheap invariants only (all successors of every visited state are checked)
        for ln in ("PROPERTY Monotone\n", "INVARIANT Replayable\n", "INVARIANT HeapClosed\n", "INVARIANT ResultCanonical\n"):
            cfg = cfg.replace(ln, "")
    r = tlc.run("MC_" + profile, cfg, workers=6 if not simulate else 4, simulate=simulate, depth=depth,
                seed=ctx.seed, timeout=3000, heap="12g")
    if not r["ok"]:
        raise MachineryError(f"TLC failed on generator MC_{profile}: {r['error'][:600]}")
    ctx.add_tlc(f"gen:{profile}:len{maxlen}" + (f":sim{simulate}" if simulate else ""), r)
    seen = {}
    for ln in r["lines"]:
        tag, _, js = tlc.payload(ln)
        if tag == "PROG":
            seen.setdefault(json.dumps(js, sort_keys=True), js)
    # TLC's workers print in a nondeterministic order: sort, so that a seed reproduces a run
    progs = [seen[k] for k in sorted(seen)]
    if require:     # focused profiles: keep the programs in which all the opcodes of interest interact
        progs = [p for p in progs if set(require) <= {o["o"] for o in p}]
    return progs


def rejected_programs(ctx, maxlen):
    """programs whose last opcode the specification rejects as a machine error (for the oracle binding)"""
    cfg = (GEN_CFG.replace("@MAXLEN@", str(maxlen)).replace("@MINSTOP@", "0").replace("@MAXDEPTH@", "8")
           .replace("@REQUIRE@", "{}").replace("@REQMODS@", "{}").replace("@REQEMPTY@", "FALSE").replace("INVARIANT Emit\n", "INVARIANT EmitErr\n"))
    for ln in ("PROPERTY Monotone\n", "INVARIANT Replayable\n", "INVARIANT ResultCanonical\n"):
        cfg = cfg.replace(ln, "")
    r = tlc.run("MC_mixed", cfg, workers=8, timeout=1800, heap="8g")
    if not r["ok"]:
        raise MachineryError(f"TLC failed on the rejected-extension generator: {r['error'][:600]}")
    ctx.add_tlc(f"gen:rejected-extensions:mixed:len{maxlen}", r)
    seen = {}
    for ln in r["lines"]:
        tag, _, js = tlc.payload(ln)
        if tag == "ERRPROG":
            seen.setdefault(json.dumps(js, sort_keys=True), js)
    return [seen[k] for k in sorted(seen)]


def instantiate(prog, v1, v2, rng, variants=True):
    """symbolic globals/strings -> vocabulary entries; random 1:1 encodings"""
    out = []
    for op in prog:
        op = dict(op)
        if op["o"] in ("GLOBAL", "INST"):
            if op["m"] == "M1":
                op["m"], op["n"] = v1[0], v1[1]
            elif op["m"] == "M2":
                op["m"], op["n"] = v2[0], (v1[1] if op["n"] == "N1" else v2[1])
        elif op["o"] == "CONST" and op["ty"] == "str" and op["s"] in ("M1", "N1", "M2"):
            val = v1[0] if op["s"] == "M1" else (v1[1] if op["s"] == "N1" else v2[0])
            op.update({"v": f"str:'{val}'", "h": f"s:'{val}'", "s": val})
        out.append(op)
    var = [rng.randrange(0, 8) for _ in out] if variants else None
    return out, var


CALLERS = {"REDUCE", "OBJ", "INST", "NEWOBJ", "NEWOBJ_EX"}


def uses_symbols(prog):
    return any((op["o"] in ("GLOBAL", "INST") and op["m"] in ("M1", "M2")) or
               (op["o"] == "CONST" and op.get("s") in ("M1", "N1", "M2")) for op in prog)


def build_items(ctx, plan, per_shape=1, natural=0):
    """plan: list of generate() keyword dicts.  Returns trace items."""
    items = []
    vi = ctx.rng.randrange(len(VOCAB))

    def gen(g):
        g = dict(g)
        g.pop("sample", None)
        if g.pop("shadow", None):
            g["reqmods"] = ("M1", "M2")
        return generate(ctx, **g)
    with cf.ThreadPoolExecutor(6) as ex:          # the generators are independent TLC runs
        generated = list(ex.map(gen, plan))
    for g, progs in zip(plan, generated):
        g = dict(g)
        shadow = g.pop("shadow", False)
        sample = g.pop("sample", None)
        if sample and len(progs) > sample:      # a seeded sample of a large exhaustive set
            progs = list(progs)
            ctx.rng.shuffle(progs)
            progs = progs[:sample]
        if shadow:      # both same-named globals must occur
            progs = [p for p in progs if {"M1", "M2"} <= {o.get("m") for o in p}]
        tag = g["profile"]
        for prog in progs:
            n = per_shape if uses_symbols(prog) else 1
            for _ in range(n):
                v1 = VOCAB[vi % len(VOCAB)]
                v2 = SECOND[vi % len(SECOND)] if not shadow else (SHADOWMODS[vi % len(SHADOWMODS)], "x")
                vi += 1
                ops, var = instantiate(prog, v1, v2, ctx.rng)
                items.append({"id": len(items), "prog": ops, "variants": var, "tag": tag})
            if tag == "calls" and len(prog) <= 5 and uses_symbols(prog) and CALLERS & {o["o"] for o in prog}:
                for sp in SPECIAL:
                    ops, var = instantiate(prog, sp, SECOND[0], ctx.rng)
                    items.append({"id": len(items), "prog": ops, "variants": var, "tag": tag})
    extra = []
    if natural:      # real model pickles (BINPERSID storages, torch._utils rebuild calls, OrderedDict + SETITEMS) and the
        import subprocess           # repository's own regression inputs
        import sys
        from .core import ROOT
        try:
            r = subprocess.run([sys.executable, "-m", "harness.torchgen", str(ctx.seed), "4" if ctx.quick else "9"], cwd=ROOT,
                               capture_output=True, text=True, timeout=300)
            extra += [(bytes.fromhex(h), "natural-torch") for h in json.loads(r.stdout)]
        except Exception as e:  # noqa: BLE001 - torch is optional for this family
            ctx.notes.append("torch model pickles not generated: " + type(e).__name__)
        extra += [(d, "natural-regression") for d in REGRESSION]
    for data, tag in list(genvalues.natural_pickles(ctx.rng, natural)) + extra:
        try:
            it = rec_vm.from_bytes(len(items), data, tag)
        except OutOfDomain:
            continue
        if len(it["prog"]) <= 1500:
            items.append(it)
    return items


def validate(ctx, records, batch=6000, par=4):
    """TLC validation of recorded traces -> {id: verdict}"""
    files = []
    for i in range(0, len(records), batch):
        p = os.path.join(ctx.tmp, f"traces_{i // batch:04d}.json")
        with open(p, "w") as f:
            json.dump(records[i:i + batch], f)
        files.append(p)
    cfg = open(os.path.join(tlc.SPEC, "VMTrace.cfg")).read()

    def one(p):
        return tlc.run("VMTrace", cfg, env={"VERIF_TRACE": p}, workers=4, timeout=3000, heap="8g")

    verdicts = {}
    with cf.ThreadPoolExecutor(par) as ex:
        for p, r in zip(files, ex.map(one, files)):
            if not r["ok"]:
                raise MachineryError(f"TLC failed validating {os.path.basename(p)}: {r['error'][:800]}")
            ctx.add_tlc("validate:" + os.path.basename(p), r)
            for ln in r["lines"]:
                tag, mids, js = tlc.payload(ln)
                if tag == "VERDICT":
                    verdicts[int(mids[0])] = js
    if len(verdicts) != len(records):
        raise MachineryError(f"trace verdicts are not total: {len(verdicts)} verdicts for {len(records)} traces")
    return verdicts


PLANS = {
    "quick": dict(plan=[dict(profile="calls", maxlen=5), dict(profile="data", maxlen=5),
                        dict(profile="sharing", maxlen=5), dict(profile="headers", maxlen=5), dict(profile="objcont", maxlen=5),
                        dict(profile="memoglobal", maxlen=8, maxdepth=4, require=("STACK_GLOBAL", "MEMOIZE", "PUT", "GET")),
                        dict(profile="memoslots", maxlen=7, maxdepth=4, require=("MEMOIZE", "PUT", "GET")),
                        dict(profile="shadow", maxlen=6, maxdepth=5, shadow=True),
                        dict(profile="emptybatch", maxlen=7, maxdepth=5, emptybatch=True),
                        dict(profile="kwargs", maxlen=8, maxdepth=5, require=("NEWOBJ_EX", "SETITEM")),
                        dict(profile="kwdup", maxlen=10, maxdepth=7, require=("NEWOBJ_EX", "DICT")),
                        dict(profile="eqkeys", maxlen=6, maxdepth=5, sample=3000),
                        dict(profile="ext", maxlen=5, maxdepth=5, require=("EXT",)),
                        dict(profile="mixed", maxlen=14, simulate=120, depth=14, minstop=7, maxdepth=6)],
                  per_shape=1, natural=400),
    # (the thorough tier enumerates one length more; the sets are large, so each profile contributes a seeded sample of at
    # most its budget - the seed decides which - and everything is processed in chunks)
    "thorough": dict(plan=[dict(profile="calls", maxlen=6, sample=90000), dict(profile="data", maxlen=6, sample=50000),
                           dict(profile="sharing", maxlen=6, sample=50000), dict(profile="headers", maxlen=6, sample=40000),
                           dict(profile="objcont", maxlen=6, sample=40000),
                           dict(profile="memoglobal", maxlen=9, maxdepth=4, require=("STACK_GLOBAL", "MEMOIZE", "PUT", "GET"), sample=40000),
                           dict(profile="memoslots", maxlen=8, maxdepth=4, require=("MEMOIZE", "PUT", "GET"), sample=40000),
                           dict(profile="shadow", maxlen=7, maxdepth=5, shadow=True),
                           dict(profile="emptybatch", maxlen=8, maxdepth=5, emptybatch=True),
                           dict(profile="kwargs", maxlen=9, maxdepth=6, require=("NEWOBJ_EX", "SETITEM")),
                           dict(profile="kwdup", maxlen=11, maxdepth=7, require=("NEWOBJ_EX", "DICT")),
                           dict(profile="eqkeys", maxlen=7, maxdepth=6, sample=30000),
                           dict(profile="ext", maxlen=6, maxdepth=5, require=("EXT",)),
                           dict(profile="mixed", maxlen=30, simulate=6000, depth=30, minstop=10, maxdepth=8, sample=60000)],
                     per_shape=2, natural=6000),
}

ASSUME = [
    "CPython 3.12 pickle._Unpickler with inert stand-ins for find_class/persistent_load is the reference VM; "
    "spec/PickleVM.tla is validated against it on exactly the programs used (any disagreement = exit 2)",
    "typed opcode alphabet: operand kinds the stock pickler would produce (DESIGN 3.2); symbolic globals are "
    "instantiated from the labelled vocabulary of spec/Verdict.tla",
    "events are compared as canonical snapshots taken when the event happens",
]


def run_family(ctx, prop, clause_of, nontrivial, rule, want=("steps", "dec", "chk", "trace"), extra_items=(), pre=None):
    """pre: optional callable(ctx) -> (failures, evaluations) of a property-specific sweep judged elsewhere (merged into the result)"""
    """clause_of(verdict, record) -> None | clause string (a violation of `prop`)"""
    import time as _t
    P = PLANS[ctx.tier]
    t0 = _t.time()
    items = build_items(ctx, P["plan"], P["per_shape"], P["natural"])
    t1 = _t.time()
    for it in extra_items:
        it = dict(it)
        it["id"] = len(items)
        items.append(it)
    if prop == "C09":       # the oracle binding in the other direction (DESIGN 2.5)
        rej = rejected_programs(ctx, 3 if ctx.quick else 4)
        ctx.rng.shuffle(rej)
        for p in rej[: (4000 if ctx.quick else 60000)]:
            ops, var = instantiate(p, VOCAB[0], SECOND[0], ctx.rng)
            try:
                assemble(ops, var)
            except Exception:  # noqa: BLE001 - not every rejected extension has an encoding (e.g. FRAME at the very end)
                continue
            items.append({"id": len(items), "prog": ops, "variants": var, "tag": "spec-rejects"})
    for it in items:
        it["want"] = want
    # recording order: shuffled, so that neighbours in one recording process are unrelated programs (state that the
    # library keeps between pickles - caches keyed by value, name or position - meets conflicting inputs), and a seeded
    # sample is recorded a second time at the end of the sequence, in reverse order, under fresh ids: both recordings are judged
    order = list(range(len(items)))
    ctx.rng.shuffle(order)
    again = []
    for k in order[: max(50, len(items) // 25)][::-1]:
        it = dict(items[k])
        it["id"] = len(items) + len(again)
        it["tag"] = items[k].get("tag", "")
        again.append(it)
    seq = [items[k] for k in order] + again
    # recorded, validated and judged in chunks, so that memory stays bounded whatever the tier's volume
    failures, mach, samples = [], [], []
    pre_evals = 0
    if pre is not None:
        failures, pre_evals = pre(ctx)
    nontriv, outdom, nrec = set(), 0, 0
    opcount = {}
    t_rec = t_val = 0.0
    CH = 150000 if ctx.quick else 50000
    for lo in range(0, len(seq), CH):
        ta = _t.time()
        records = rec_vm.record_many(seq[lo:lo + CH])
        tb = _t.time()
        verdicts = validate(ctx, records)
        t_rec, t_val = t_rec + tb - ta, t_val + _t.time() - tb
        nrec += len(records)
        for rec in records:
            for o in rec["prog"]:
                opcount[o["o"]] = opcount.get(o["o"], 0) + 1
        for rec in records:
            v = verdicts[rec["id"]]
            if v["ref"] != "ok":
                mach.append(f"spec/reference disagreement {v['ref']} on {assemble_safe(rec)}")
                continue
            if v["dom"] != "in":
                outdom += 1
                continue
            if nontrivial(v, rec):
                nontriv.add(rec["hex"])
            if prop == "C04" and rec["fick"]["chk"]["ok"] and rec["fick"]["chk"]["sev"] < v.get("mv", 0) and len(ctx.drift) < 5 \
                    and "F:same-name-different-module" not in features(rec):
                ctx.drift.append(f"real verdict {rec['fick']['chk']['sev']} below the rule-set model's {v['mv']} on " + assemble_safe(rec))
            c = clause_of(v, rec)
            if c:
                opset = sorted({o["o"] for o in rec["prog"]} | features(rec))
                failures.append({"clause": c, "opset": opset,
                                 "detail": " ".join(o["o"] for o in rec["prog"][:40]) + " hex=" + rec["hex"][:120],
                                 "replay_obj": {"property": prop, "clause": c, "verdict": v, "record": rec}})
        if len(samples) < 5 and records:
            rec = records[len(records) // 2]
            samples.append({"prog": [o["o"] for o in rec["prog"]][:30], "hex": rec["hex"][:80], "verdict": verdicts[rec["id"]]})
        del records, verdicts
    ctx.notes.append(f"phases: generate+instantiate {t1 - t0:.1f}s, record {t_rec:.1f}s, validate {t_val:.1f}s ({nrec} records in chunks of {CH})")
    modelled = ["CONST", "MARK", "PROTO", "FRAME", "POP", "POP_MARK", "DUP", "PUT", "MEMOIZE", "GET", "GLOBAL", "STACK_GLOBAL",
                "EMPTY_TUPLE", "TUPLE1", "TUPLE2", "TUPLE3", "TUPLE", "EMPTY_LIST", "EMPTY_DICT", "EMPTY_SET", "LIST", "DICT",
                "FROZENSET", "APPEND", "APPENDS", "SETITEM", "SETITEMS", "ADDITEMS", "REDUCE", "NEWOBJ", "NEWOBJ_EX", "OBJ",
                "INST", "BUILD", "BINPERSID", "PERSID", "EXT", "STOP"]
    never = [o for o in modelled if not opcount.get(o)]
    if never:       # vacuity guard: every transition of the reference machine must be exercised by the tier's inputs
        mach.append("opcodes of the specification never exercised by this run: " + ",".join(never))
    if os.environ.get("VERIF_DUMP"):
        with open(os.environ["VERIF_DUMP"], "w") as f:
            for fl in failures:
                f.write(json.dumps({"clause": fl["clause"], "ops": [o["o"] for o in fl["replay_obj"]["record"].get("prog", [])],
                                    "hex": fl["replay_obj"]["record"]["hex"], "tag": fl["replay_obj"]["record"]["tag"]}) + "\n")
    # smallest failing programs first, so that the reported witness is minimal
    failures.sort(key=lambda f: len(f["replay_obj"]["record"].get("prog", ())))
    return finish(ctx, level="model_checking", failures=failures, evaluations=nrec + pre_evals,
                  distinct_nontrivial=len(nontriv), rule=rule, samples=samples, traces=nrec + pre_evals,
                  assumptions=ASSUME, machinery_errors=mach,
                  extra={"out_of_typed_domain": outdom, "exhaustive": False, "opcode_occurrences": opcount,
                         "profiles": [f"{g['profile']}:len{g['maxlen']}" + (":simulate" if g.get("simulate") else (":exhaustive-sampled" if g.get("sample") else ":exhaustive"))
                                      + (":require=" + "+".join(g["require"]) if g.get("require") else "") for g in P["plan"]]})


def features(rec):
    """derived program features usable in known-finding signatures"""
    f = set()
    imps = [(e["m"], e["n"]) for e in rec["ref"]["ev"] if e["e"] == "import"]
    if any("." in n for _m, n in imps):
        f.add("F:dotted-global-name")
    byname = {}
    for m, n in imps:
        byname.setdefault(n, set()).add(m)
    if any(len(ms) > 1 for ms in byname.values()):
        f.add("F:same-name-different-module")
    if rec["ref"].get("stale"):
        # a global is used (called, passed, stored, returned) after a same-named global of another module was resolved:
        # the bare name the decompiler prints no longer denotes it
        f.add("F:stale-global-use")
    names = [o["o"] for o in rec["prog"]]
    callers = {"REDUCE", "OBJ", "INST", "NEWOBJ", "NEWOBJ_EX", "BINPERSID", "PERSID", "BUILD"}
    mutators = {"APPEND", "APPENDS", "SETITEM", "SETITEMS", "ADDITEMS"}
    first_call = next((i for i, n in enumerate(names) if n in callers), None)
    if first_call is not None and any(n in mutators for n in names[first_call + 1:]):
        f.add("F:mutation-after-call")
    return f


def assemble_safe(rec):
    return " ".join(o["o"] for o in rec["prog"][:30]) + " hex=" + rec["hex"][:100]


def replay(ctx, path, clause_of):
    """re-record one saved counterexample on the current tree and validate it again"""
    with open(path) as f:
        obj = json.load(f)
    rec0 = obj["record"]
    item = {"id": 0, "prog": rec0["prog"], "hex": rec0["hex"], "tag": rec0.get("tag", "")}
    rec = rec_vm.record(item)
    v = validate(ctx, [rec])[0]
    c = clause_of(v, rec)
    print(json.dumps({"verdict": v, "clause": c}, indent=1))
    if v["ref"] != "ok":
        print(f"MACHINERY-ERROR property={ctx.prop} spec/reference disagreement {v['ref']}")
        return 2
    if c:
        print(f"VIOLATION property={ctx.prop} replay={path}   # {c}")
        return 1
    print(f"{ctx.prop}: replayed case now holds")
    return 0
