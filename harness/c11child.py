"""Replay allowlist histories on the real modules in a dedicated process.
usage: python -m harness.c11child <hists.json> <out.json>"""
import copy
import io
import json
import os
import sys

import _pickle
import pickle

ORIG = (pickle.load, pickle.loads, _pickle.load, _pickle.loads)
ORIG_UNPICKLER = pickle.Unpickler
sys.path.insert(0, os.path.join(os.path.dirname(os.path.abspath(__file__)), "natmods"))
import verif_sink  # noqa: E402,F401
import fickling  # noqa: E402
import fickling.hook as hook  # noqa: E402
import fickling.ml as ml  # noqa: E402
from fickling.exception import UnsafeFileError  # noqa: E402

GLOBALS = ["collections.OrderedDict", "collections.Counter", "collections.deque",
           "fractions.Fraction", "decimal.Decimal", "verif_sink.hit", "fractions.Decimal"]
ADD = {"0": None, "1": ["fractions.Fraction"], "2": ["collections.Counter"],
       "3": ["fractions.Fraction", "collections.Counter", "decimal.Decimal"]}
BASE0 = copy.deepcopy(ml.ML_ALLOWLIST)
# callers commonly keep ONE list of extra imports and edit it in place between uses: the same list object is passed
# to every activation (and another one to every directly constructed unpickler), with its contents replaced each time
ACT_LIST, CON_LIST = [], []


def pk(g):
    m, n = g.rsplit(".", 1)
    return f"c{m}\n{n}\n.".encode()


def outcome(f):
    try:
        f()
        return "ok"
    except UnsafeFileError:
        return "refused"
    except Exception as e:  # noqa: BLE001
        return "error:" + type(e).__name__


def reset():
    pickle.load, pickle.loads, _pickle.load, _pickle.loads = ORIG
    pickle.Unpickler = ORIG_UNPICKLER
    ml.ML_ALLOWLIST.clear()
    ml.ML_ALLOWLIST.update(copy.deepcopy(BASE0))


STREAMS = {}


def on_worker(f):
    """run f on a fresh thread and wait for it (the hooks are process-wide: which thread activated does not matter)"""
    import threading
    box = []

    def body():
        try:
            f()
        except BaseException as e:  # noqa: BLE001
            box.append(e)
    t = threading.Thread(target=body)
    t.start()
    t.join()
    if box:
        raise box[0]


def replay(hist, shared=False, mediated=False, keep_streams=False, ctx_deact=False, threads=False):
    """mediated=True: while an activation is in force, an unpickler with additions is constructed through the pickle
    module (`pickle.Unpickler(f, also_allow=A)`, the class the activation installed) rather than by naming the class.
    shared=True: the caller keeps ONE additions list per use (activations / constructions) and edits it in place; no
    unrelated unpickler is constructed in between (the probes through a fresh unpickler are skipped)"""
    reset()
    if ml.ML_ALLOWLIST != BASE0:
        raise SystemExit("reset of ML_ALLOWLIST failed")
    steps, active = [], False
    for opno, op in enumerate(hist):
        inst = None
        # in some histories every other activation / deactivation is made by a worker thread; all probes stay on this one
        call = on_worker if threads and opno % 2 == 1 else (lambda f: f())
        if op == "deact":
            if ctx_deact:               # the environment is deactivated from inside an open safety context
                def _d():
                    with fickling.check_safety():
                        hook.remove_hook()
                call(_d)
            else:
                call(hook.remove_hook)
            active = False
        elif op.startswith("act"):
            a = ADD[op[-1]]
            if a is None:
                call(fickling.activate_safe_ml_environment)
            elif shared:
                ACT_LIST[:] = a
                call(lambda: fickling.activate_safe_ml_environment(also_allow=ACT_LIST))
            else:
                call(lambda a=a: fickling.activate_safe_ml_environment(also_allow=list(a)))
            active = True
        else:
            a = ADD[op[-1]]
            if a and mediated and active and pickle.Unpickler is not ORIG_UNPICKLER:
                if shared:
                    CON_LIST[:] = a
                inst = (lambda data, a=a: pickle.Unpickler(io.BytesIO(data), also_allow=(CON_LIST if shared else list(a))))
            elif a and shared:
                CON_LIST[:] = a
                inst = (lambda data: ml.FicklingMLUnpickler(io.BytesIO(data), also_allow=CON_LIST))
            else:
                inst = (lambda data, a=a: ml.FicklingMLUnpickler(io.BytesIO(data), also_allow=list(a) if a else None))
            inst(b"N.")       # constructing is the step
        st = {"op": op}
        # through the entry points of the pickle module (alternating which one)
        def stream(d):
            # half of the histories read every probe from ONE long-lived stream object per pickle (rewound before each
            # load): what is permitted depends on the activation in force, not on what read that stream before
            if not keep_streams:
                return io.BytesIO(d)
            st = STREAMS.setdefault(d, io.BytesIO(d))
            st.seek(0)
            return st
        entry = [lambda d: pickle.loads(d), lambda d: pickle.load(stream(d)),
                 lambda d: _pickle.loads(d), lambda d: _pickle.load(stream(d))]
        st["env"] = [outcome(lambda g=g, k=k: entry[(k + len(steps)) % 4](pk(g))) for k, g in enumerate(GLOBALS)]
        st["plain_ran"] = not shared
        st["plain"] = [outcome(lambda g=g: ml.FicklingMLUnpickler(io.BytesIO(pk(g))).load()) for g in GLOBALS] if not shared else ["na"] * len(GLOBALS)
        st["inst"] = [outcome(lambda g=g: inst(pk(g)).load()) for g in GLOBALS] if inst else ["na"] * len(GLOBALS)
        st["base_same"] = ml.ML_ALLOWLIST == BASE0
        steps.append(st)
    reset()
    return steps


def main():
    hists = json.load(open(sys.argv[1]))
    # the model's Base0 must be right about the real table
    for g, want in zip(GLOBALS, [True, False, False, False, False, False, False]):
        m, n = g.rsplit(".", 1)
        if (m in BASE0 and n in BASE0[m]) != want:
            raise SystemExit(f"vocabulary assumption broken: {g} in built-in allowlist = {not want}")
    out = [{"id": i, "hist": h, "steps": replay(h, shared=(i % 2 == 1), mediated=(i % 4 >= 2), keep_streams=(i % 3 == 0), ctx_deact=(i % 5 == 0), threads=(i % 7 in (3, 4)))} for i, h in enumerate(hists)]
    json.dump(out, open(sys.argv[2], "w"))


if __name__ == "__main__":
    main()
