"""Child: print hex of data.pkl members of small models saved with torch.save (zip and legacy object pickles).
usage: python -m harness.torchgen <seed> <n>"""
import io
import json
import random
import sys
import warnings
import zipfile

warnings.filterwarnings("ignore")
import torch  # noqa: E402


def main():
    rng = random.Random(int(sys.argv[1]))
    n = int(sys.argv[2])
    out = []
    objs = [torch.nn.Linear(2, 3), torch.nn.Linear(2, 3).state_dict(), {"a": torch.zeros(2), "b": [torch.ones(1, 2), (torch.arange(3),)]},
            torch.nn.Sequential(torch.nn.Linear(2, 2), torch.nn.ReLU()), [torch.tensor([1, 2, 3]), torch.tensor([1.5])],
            {"opt": {"lr": 0.1, "betas": (0.9, 0.999)}, "step": 3, "w": torch.zeros(0)}, torch.nn.Embedding(3, 2).state_dict(),
            torch.nn.BatchNorm1d(2), torch.nn.Conv1d(1, 2, 2).state_dict()]
    rng.shuffle(objs)
    for o in objs[:n]:
        buf = io.BytesIO()
        torch.save(o, buf)
        with zipfile.ZipFile(io.BytesIO(buf.getvalue())) as z:
            name = next(x for x in z.namelist() if x.endswith("/data.pkl"))
            out.append(z.read(name).hex())
    json.dump(out, sys.stdout)


if __name__ == "__main__":
    main()
