"""Sandboxed child: runs every analysis entry point on every input under an audit hook and
writes the classified event traces.   usage: python -m harness.c01child <in.json> <out.json>
in: {"scratch": dir, "inputs": [{"hex", "named": [module names and their parents], "tag"}]}"""
import contextlib
import io
import json
import os
import sys
import sysconfig

NAT = os.path.join(os.path.dirname(os.path.abspath(__file__)), "natmods")
sys.path.insert(0, NAT)
import verif_sink  # noqa: E402

STATE = {"on": False, "events": [], "named": set(), "input": None, "report": None, "scratch": None}
LIB = [os.path.realpath(p) for p in {sys.prefix, sys.base_prefix, sysconfig.get_paths()["purelib"], sysconfig.get_paths()["stdlib"],
                                      os.environ.get("VERIF_REPO") or "/repo", NAT} if p]
DANGER = ("os.system", "os.exec", "os.posix_spawn", "os.spawn", "os.fork", "os.forkpty", "subprocess.Popen", "pty.spawn")


def ev(c, d=""):
    STATE["events"].append({"c": c, "d": str(d)[:80].replace('"', "'").replace("\\", "/")})


def audit(name, args):
    if not STATE["on"]:
        return
    if name == "import":
        mod = args[0]
        root = mod.split(".")[0]
        if mod in STATE["named"] or root in STATE["named"] or any(part in STATE["named"] for part in mod.split(".")):
            ev("import_named", mod)
        else:
            ev("own_import", mod)
    elif name == "pickle.find_class":
        ev("find_class", ".".join(map(str, args[-2:])))
    elif name == "exec":
        fn = getattr(args[0], "co_filename", "?")
        if isinstance(fn, str) and any(os.path.realpath(fn).startswith(x) for x in LIB) and os.path.basename(NAT) not in fn:
            ev("own_import", "module code " + os.path.basename(fn))     # body of a library module being imported
        else:
            ev("exec", fn)
    elif name == "compile":
        pass            # compile alone runs nothing; an `exec` event follows if the result is executed
    elif name == "marshal.loads":
        f = sys._getframe(1)
        while f is not None:            # loading a .pyc of one of fickling's own (lazy) imports is not input-driven
            if "importlib._bootstrap" in f.f_code.co_filename:
                return
            f = f.f_back
        ev("marshal_loads")
    elif name == "open":
        path, mode = args[0], args[1] if len(args) > 1 else "r"
        if not isinstance(path, (str, bytes, os.PathLike)):
            return
        p = os.path.realpath(os.fsdecode(path))
        m = mode or "r"
        writing = any(ch in m for ch in "wax+")
        if STATE["input"] and p == STATE["input"] and not writing:
            ev("open_read_input", os.path.basename(p))
        elif STATE["report"] and p == STATE["report"] and "a" in m:
            ev("open_append_report", os.path.basename(p))
        elif writing:
            ev("open_write_other", p)
        elif any(p.startswith(x) for x in LIB):
            ev("open_read_lib", os.path.basename(p))
        else:
            ev("open_read_other", p)
    elif name.startswith(DANGER):
        ev("spawn", name)
        raise RuntimeError("refused by the verification sandbox: " + name)
    elif name.startswith("socket."):
        if name not in ("socket.__new__",):
            ev("socket", name)
            raise RuntimeError("refused by the verification sandbox: " + name)
    elif name.startswith("ctypes."):
        ev("ctypes", name)
        raise RuntimeError("refused by the verification sandbox: " + name)


sys.addaudithook(audit)


class Finder:
    """sees import attempts and find_spec probes that raise no `import` event"""

    def find_spec(self, fullname, path=None, target=None):
        if STATE["on"] and (fullname in STATE["named"] or fullname.split(".")[0] in STATE["named"]):
            ev("probe_named", fullname)
        return None


sys.meta_path.insert(0, Finder())

import fickling  # noqa: E402,F401
import fickling.analysis as an  # noqa: E402
import fickling.fickle as fk  # noqa: E402
import fickling.tracing as tr  # noqa: E402
from fickling.cli import main as cli_main  # noqa: E402
import ast  # noqa: E402


class Out:
    def __init__(self):
        self.buffer = io.BytesIO()

    def write(self, s):
        pass

    def flush(self):
        pass

    def isatty(self):
        return False


def entries(data, path, report):
    def cli(*argv):
        old = sys.stdout
        sys.stdout = Out()
        try:
            with contextlib.redirect_stderr(io.StringIO()):
                return cli_main(["fickling"] + list(argv))
        finally:
            sys.stdout = old

    def traced():
        with contextlib.redirect_stdout(io.StringIO()):
            return tr.Trace(fk.Interpreter(fk.Pickled.load(data))).run()
    return {
        "parse": lambda: fk.Pickled.load(data),
        "stacked": lambda: fk.StackedPickle.load(data),
        "decompile": lambda: fk.Pickled.load(data).ast,
        "unparse": lambda: ast.unparse(fk.Pickled.load(data).ast),
        "trace": traced,
        "check": lambda: an.check_safety(fk.Pickled.load(data)),
        "check_json": lambda: an.check_safety(fk.Pickled.load(data), json_output_path=report),
        "check_each": lambda: check_each(data),
        "check_ml": lambda: check_ml(data),
        "likely_safe": lambda: an.is_likely_safe(path),
        "cli_decompile": lambda: cli(path),
        "cli_trace": lambda: cli("--trace", path),
        "cli_check": lambda: cli("--check-safety", "--json-output", report, path),
    }


def check_each(data):
    """every registered analysis on its own (the first failure is re-raised after all of them ran)"""
    first = None
    for cls in list(dict.fromkeys(type(a) for a in an.Analysis.ALL)):
        try:
            an.check_safety(fk.Pickled.load(data), analyzer=an.Analyzer([cls()]))
        except BaseException as e:  # noqa: BLE001
            first = first or e
    if first is not None:
        raise first


def check_ml(data):
    import fickling.ml as ml
    recipe = [c() for c in (getattr(ml, "MLAllowlist", None), getattr(an, "UnsafeImportsML", None), getattr(an, "BadCalls", None)) if c]
    return an.check_safety(fk.Pickled.load(data), analyzer=an.Analyzer(recipe))


def listing(d):
    out = set()
    for root, _dirs, files in os.walk(d):
        for f in files:
            out.add(os.path.relpath(os.path.join(root, f), d))
    return out


def run_input(it, idx, scratch, out):
    data = bytes.fromhex(it["hex"])
    path = os.path.join(scratch, "input.pkl")
    report = os.path.join(scratch, "report.json")
    with open(path, "wb") as f:
        f.write(data)
    for name, fn in entries(data, path, report).items():
        if os.path.exists(report):
            os.remove(report)
        before_fs, before_mods, n0 = listing(scratch), set(sys.modules), len(verif_sink.calls)
        STATE.update(on=True, events=[], named=set(it["named"]), input=os.path.realpath(path), report=os.path.realpath(report))
        try:
            fn()
            outcome = "returned"
        except BaseException as e:  # noqa: BLE001 - both outcomes are fine; only the events matter
            outcome = "raised:" + type(e).__name__
        finally:
            STATE["on"] = False
        for c in verif_sink.calls[n0:]:
            ev("sink", c[0] if isinstance(c[0], str) else "call")
        del verif_sink.calls[n0:]
        for f in sorted(listing(scratch) - before_fs - {"report.json"}):
            ev("fs_delta", f)
        for m in sorted(set(sys.modules) - before_mods):
            if m in it["named"] or m.split(".")[0] in it["named"]:
                ev("modules_delta_named", m)
                sys.modules.pop(m, None)
        out.append({"id": len(out), "input": idx, "entry": name, "outcome": outcome, "events": STATE["events"], "tag": it["tag"]})


def lazy_import(name):
    """the documented importlib.util.LazyLoader recipe: the module is in sys.modules, its body has not run"""
    import importlib.util
    spec = importlib.util.find_spec(name)
    loader = importlib.util.LazyLoader(spec.loader)
    spec.loader = loader
    module = importlib.util.module_from_spec(spec)
    sys.modules[name] = module
    loader.exec_module(module)
    return module


def main():
    lazy_import("verif_lazy")          # the host program has a lazily imported module that an input may name
    extra = json.load(open(sys.argv[1])).get("extra_path")
    if extra:
        sys.path.insert(0, extra)
    spec = json.load(open(sys.argv[1]))
    scratch = spec["scratch"]
    os.makedirs(scratch, exist_ok=True)
    os.chdir(scratch)
    out = []
    # warm-up: lazy imports of fickling's own dependencies are not input-driven
    run_input({"hex": b"cverif_warm\nup\n(K\x01tR.".hex(), "named": [], "tag": "warmup"}, -1, scratch, out)
    run_input({"hex": b"\x80\x04]\x94(K\x01\x8c\x01a\x94e.".hex(), "named": [], "tag": "warmup"}, -1, scratch, out)
    run_input({"hex": b"(Vabc\\u00e9\nS'x'\nI1\nL2L\nG?\xf8\x00\x00\x00\x00\x00\x00B\x01\x00\x00\x00al.".hex(), "named": [], "tag": "warmup"}, -1, scratch, out)
    del out[:]
    for i, it in enumerate(spec["inputs"]):
        run_input(it, i, scratch, out)
    json.dump(out, open(sys.argv[2], "w"))


if __name__ == "__main__":
    main()
