"""Seeded generator of Python values and their pickles at protocols 0-5 ("natural pickles")."""
import collections
import datetime
import decimal
import fractions
import os
import pickle
import pickletools
import sys

sys.path.insert(0, os.path.join(os.path.dirname(os.path.abspath(__file__)), "natmods"))
import verif_nat  # noqa: E402

INTS = [0, 1, -1, 2, 255, 256, -255, -256, 65535, 65536, -65536, 2**31 - 1, 2**31, -2**31, -2**31 - 1,
        2**32, 2**63 - 1, 2**63, -2**63, 2**64 + 7, 10**30, -10**40]
FLOATS = [0.0, -0.0, 1.0, 1.5, -2.25, 1e300, 1e-300, float("inf"), float("-inf"), 3.0]
STRS = ["", "a", "abc", "123", "-7", "a b", "café", "中文", "\U0001f600", "it's", 'say "hi"', "back\\slash",
        "line\nbreak", "tab\there", "\x00\x01", "x" * 255, "y" * 256, "z" * 300, "€" * 100]
BYTES = [b"", b"a", b"123", b"\x00\xff", b"it's", b"\n", b"b" * 255, b"c" * 256, b"d" * 70000]
UNSUPPORTED = {"FLOAT", "BYTEARRAY8", "EXT1", "EXT2", "EXT4", "NEXT_BUFFER", "READONLY_BUFFER", "PERSID"}


def scalar(rng):
    k = rng.randrange(7)
    if k == 0:
        return rng.choice(INTS)
    if k == 1:
        return rng.choice(FLOATS)
    if k == 2:
        return rng.choice(STRS)
    if k == 3:
        return rng.choice(BYTES[:-1]) if rng.random() < 0.97 else BYTES[-1]
    if k == 4:
        return rng.choice([True, False, None])
    if k == 5:
        return rng.randrange(-1000, 1000)
    return rng.choice(["k%d" % rng.randrange(6), rng.randrange(5)])


def hashable(rng, depth):
    k = rng.randrange(6)
    if k < 4 or depth <= 0:
        v = scalar(rng)
        return v
    if k == 4:
        return tuple(hashable(rng, depth - 1) for _ in range(rng.randrange(3)))
    return frozenset(hashable(rng, depth - 1) for _ in range(rng.randrange(3)))


def plain(rng, depth, pool):
    """plain data: numbers, text, bytes, lists, tuples, dicts, sets, frozensets, nested and shared"""
    if pool and rng.random() < 0.15:
        return rng.choice(pool)          # shared sub-object
    k = rng.randrange(9)
    if depth <= 0 or k < 3:
        return scalar(rng)
    n = rng.randrange(4)
    if k == 3:
        v = [plain(rng, depth - 1, pool) for _ in range(n)]
    elif k == 4:
        v = tuple(plain(rng, depth - 1, pool) for _ in range(n))
    elif k == 5:
        v = {hashable(rng, 1): plain(rng, depth - 1, pool) for _ in range(n)}
    elif k == 6:
        v = {hashable(rng, 1) for _ in range(n)}
    elif k == 7:
        v = frozenset(hashable(rng, 1) for _ in range(n))
    else:
        v = [plain(rng, depth - 1, pool) for _ in range(rng.randrange(2, 7))]
    if isinstance(v, (list, dict, set, tuple)) and v:
        pool.append(v)
    return v


def instance(rng, depth, pool):
    k = rng.randrange(12)
    sub = lambda: plain(rng, depth - 1, pool)  # noqa: E731
    if k == 0:
        return verif_nat.Plain(a=sub(), b=sub())
    if k == 1:
        return verif_nat.Slotted(sub(), sub())
    if k == 2:
        return verif_nat.DictAndSlots(sub(), z=sub())
    if k == 3:
        r = verif_nat.Reducer(sub(), sub())
        r.state = {"st": sub()} if rng.random() < 0.7 else None
        r.items = [sub() for _ in range(rng.randrange(3))]
        r.kv = {"k%d" % i: sub() for i in range(rng.randrange(3))}
        return r
    if k == 4:
        # cls.__new__(cls, *args, **kwargs) takes any text as a keyword name: identifiers, reserved words, names that
        # are not identifiers, and a name whose NFKC normal form is a different identifier
        return verif_nat.NewArgs(sub(), **{rng.choice(["key", "key", "content-type", "class", "a b", "\ufb01"]): sub()})
    if k == 5:
        return verif_nat.NewArgsPos(sub(), sub())
    if k == 6:
        return verif_nat.StateTuple(sub())
    if k == 7:
        return collections.OrderedDict((("a", sub()), ("b", sub())))
    if k == 8:
        return rng.choice([datetime.date(2020, 1, 2), fractions.Fraction(3, 4), decimal.Decimal("1.5"),
                           complex(1, 2), range(3), bytearray(b"ab"), collections.Counter("aab")])
    if k == 9:
        x = verif_nat.Plain(v=sub())
        return [x, x, verif_nat.Plain(ref=x)]
    if k == 10:
        return {"m": verif_nat.Plain(n=verif_nat.Slotted(sub(), None)), "t": (verif_nat.Plain(),)}
    return [verif_nat.Plain(i=i) for i in range(rng.randrange(2, 5))]


def opnames(data):
    return [i.name for i, _a, _p in pickletools.genops(data)]


def natural_pickles(rng, n):
    """yields (bytes, tag): tag = "plain" (plain data, supported opcodes only), "natural" otherwise"""
    out = []
    while len(out) < n:
        pool = []
        if rng.random() < 0.55:
            v, base = plain(rng, rng.randrange(1, 4), pool), "plain"
        else:
            v, base = instance(rng, 2, pool), "natural"
        for proto in range(6):
            try:
                data = pickle.dumps(v, protocol=proto)
            except Exception:  # noqa: BLE001
                continue
            names = set(opnames(data))
            tag = base if not (names & UNSUPPORTED) else "natural-unsupported"
            out.append((data, tag))
    if n:
        big = list(range(300))      # > 255 memo entries
        out.append((pickle.dumps([[i] for i in big], 2), "plain"))
    return out[: n + 1] if n else []
