"""Running TLC / SANY and parsing what they print."""
import json
import os
import re
import shutil
import subprocess
import tempfile
import time

SPEC = os.path.join(os.path.dirname(os.path.dirname(os.path.abspath(__file__))), "spec")
JAR = "/opt/veriftools/tla/tla2tools.jar:/opt/veriftools/tla/CommunityModules-deps.jar"


class MachineryError(Exception):
    """the verification machinery itself failed (exit code 2, never a VIOLATION)"""


def sany(module):
    r = subprocess.run(["java", "-cp", JAR, "tla2sany.SANY", module + ".tla"], cwd=SPEC,
                       capture_output=True, text=True, timeout=300)
    bad = [ln for ln in r.stdout.splitlines() if re.search(r"\*\*\* Errors|Semantic errors|Parse Error|Fatal|Could not", ln)]
    if r.returncode != 0 or bad:
        raise MachineryError(f"SANY rejected {module}: {bad[:3]} {r.stdout[-400:]}")
    return True


_STATS = re.compile(r"(\d+) states generated, (\d+) distinct states found")
_SIMSTATS = re.compile(r"The number of states generated: (\d+)")


def run(module, cfg, *, env=None, workers=8, simulate=None, depth=None, seed=None, timeout=1800,
        coverage=False, heap="6g", deadlock=False, extra=()):
    """Run TLC on spec/<module>.tla with configuration text `cfg`.
    Returns dict(lines=[PrintT payload lines], generated, distinct, ok, raw_tail, wall, coverage)."""
    tmp = tempfile.mkdtemp(prefix="verif_tlc_")
    try:
        cfgp = os.path.join(tmp, "run.cfg")
        with open(cfgp, "w") as f:
            f.write(cfg)
        cmd = ["java", "-XX:+UseParallelGC", f"-Xmx{heap}", "-Xss512m", f"-Djava.io.tmpdir={tmp}",     # (TLC leaves an empty tlc-<n> directory per run in the temporary directory)
               "-cp", JAR, "tlc2.TLC",
               "-metadir", os.path.join(tmp, "meta"), "-noGenerateSpecTE", "-config", cfgp]
        if simulate:
            cmd += ["-simulate", f"num={simulate}"]
            if depth:
                cmd += ["-depth", str(depth)]
            if seed is not None:
                cmd += ["-seed", str(seed)]
            workers = 1 if workers == 1 else workers
        cmd += ["-workers", str(workers)]
        if coverage:
            cmd += ["-coverage", "1"]
        cmd += list(extra) + [module + ".tla"]
        e = dict(os.environ)
        if env:
            e.update(env)
        t0 = time.time()
        outp = os.path.join(tmp, "out.txt")
        with open(outp, "w") as fo:
            try:
                r = subprocess.run(cmd, cwd=SPEC, stdout=fo, stderr=subprocess.STDOUT, env=e, timeout=timeout)
                rc = r.returncode
            except subprocess.TimeoutExpired:
                rc = -9
        wall = time.time() - t0
        lines, other = [], []
        with open(outp, errors="replace") as fi:
            for ln in fi:
                if ln.startswith("<<\""):
                    lines.append(ln.rstrip("\n"))
                else:
                    other.append(ln.rstrip("\n"))
        text = "\n".join(other)
        gen = dist = 0
        m = None
        for m in _STATS.finditer(text):
            pass
        if m:
            gen, dist = int(m.group(1)), int(m.group(2))
        else:
            m2 = _SIMSTATS.search(text)
            if m2:
                gen = dist = int(m2.group(1))
        ok = ("Model checking completed. No error has been found." in text) or (simulate and rc in (0,) )
        cov = parse_coverage(text) if coverage else {}
        err = ""
        if not ok:
            idx = text.find("Error:")
            err = text[idx: idx + 1500] if idx >= 0 else text[-1500:]
        return {"lines": lines, "generated": gen, "distinct": dist, "ok": bool(ok), "rc": rc,
                "error": err, "wall": wall, "coverage": cov, "raw_tail": text[-600:]}
    finally:
        shutil.rmtree(tmp, ignore_errors=True)


_COV = re.compile(r"^<(\w+) line (\d+), col (\d+) to line (\d+), col (\d+) of module (\w+)>: (\d+):(\d+)", re.M)


def parse_coverage(text):
    cov = {}
    for m in _COV.finditer(text):
        cov[f"{m.group(6)}!{m.group(1)}"] = {"distinct": int(m.group(7)), "taken": int(m.group(8))}
    return cov


_PAY = re.compile(r'^<<"(\w+)", (?:(.*?), )?"([\[{].*)">>$')


def payload(line):
    """<<"TAG", mid..., "json text">>  ->  (tag, [mid fields as text], parsed json)"""
    m = _PAY.match(line)
    if not m:
        raise MachineryError("unparsable TLC output line: " + line[:200])
    mids = [x.strip() for x in m.group(2).split(",")] if m.group(2) else []
    return m.group(1), mids, json.loads(json.loads('"' + m.group(3) + '"'))
