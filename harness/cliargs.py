"""The command line as a decision table (spec/CliArgsRel.tla): TLC enumerates the cells, the real `main()` is run
in-process on each, and TLC compares what it did with the table.  Not one of the listed properties: every
disagreement is reported as MODEL-DRIFT (exit status unaffected)."""
import contextlib
import io
import json
import os
import pickle
import sys

from . import tlc, tv

SAFE = pickle.dumps([1, 2], 2)
UNSAFE = b"cos\ngetpid\n(tR."
INPUT = {"empty": b"", "one_safe": SAFE, "two_safe": SAFE + pickle.dumps({"a": 1}, 4), "safe_unsafe": SAFE + UNSAFE,
         "unsafe_safe": UNSAFE + SAFE, "garbage": b"\xff\xfe junk", "junk_tail": SAFE + b"\xff\xfejunk",
         "truncated_tail": SAFE + SAFE[:-3]}


class _Keep(io.BytesIO):
    def close(self):
        pass


class _Out(io.StringIO):
    def __init__(self):
        super().__init__()
        self.buffer = _Keep()

    def isatty(self):
        return False


def run_cell(ctx, c, idx, fk, main):
    d = os.path.join(ctx.tmp, f"cli{idx}")
    os.makedirs(d, exist_ok=True)
    f = set(c["f"])
    path = os.path.join(d, "in.pkl")
    if c["i"] != "missing":
        open(path, "wb").write(INPUT[c["i"]])
    jp = os.path.join(d, "report.json")
    argv = ["fickling"]
    if "version" in f:
        argv.append("--version")
    if "create" in f:
        argv += ["--create", "1+1"]
    if "inject" in f:
        argv += ["--inject", "2+2", "--inject-target", str(c["k"])] if c["k"] != 0 or idx % 2 else ["--inject", "2+2"]
    if "check" in f:
        argv.append("--check-safety")
    if "trace" in f:
        argv.append("--trace")
    if "run_last" in f:
        argv.append("--run-last")
    if "replace" in f:
        argv.append("--replace-result")
    if "print" in f:
        argv.append("--print-results")
    if "json" in f:
        argv += ["--json-output", jp]
    else:
        jp = os.path.join(d, "safety_results.json")
    if c["ch"] == "path":
        argv.append(path)
    elif idx % 3 == 0:
        argv.append("-")
    out, err = _Out(), io.StringIO()
    old = (sys.stdout, sys.stderr, sys.stdin)
    cwd = os.getcwd()
    os.chdir(d)
    sys.stdout, sys.stderr = out, err
    if c["ch"] == "stdin":
        sys.stdin = io.TextIOWrapper(io.BytesIO(INPUT.get(c["i"], b"")))
    try:
        try:
            rc = main(argv)
            rc = 0 if rc is None else int(rc)
        except SystemExit as e:
            rc = e.code if isinstance(e.code, int) else 2
        except BaseException:  # noqa: BLE001 - an escaping exception is an outcome of the table (-1)
            rc = -1
    finally:
        sys.stdout, sys.stderr, sys.stdin = old
        os.chdir(cwd)
    raw = out.buffer.getvalue()
    text = out.getvalue()
    nout = 0
    if raw:
        try:
            nout = len(fk.StackedPickle.load(raw))
        except Exception:  # noqa: BLE001
            nout = -1
    e = err.getvalue()
    ekind = "usage" if e.startswith("usage:") else "Error" if e.startswith("Error:") else "Warning" if e.startswith("Warning:") else ("none" if not e else "other")
    docs = 0
    if os.path.exists(jp):
        txt, pos, dec = open(jp).read(), 0, json.JSONDecoder()
        while pos < len(txt):
            while pos < len(txt) and txt[pos].isspace():
                pos += 1
            if pos >= len(txt):
                break
            _d, pos = dec.raw_decode(txt, pos)
            docs += 1
    created = os.path.exists(path) and open(path, "rb").read().startswith(b"c__builtin__\neval\n")
    return {"id": idx, "f": sorted(f), "i": c["i"], "ch": c["ch"], "k": c["k"], "rc": rc,
            "out": "pickles" if raw else ("text" if text else "none"), "nout": nout, "err": ekind, "json": docs, "created": bool(created)}


def run(ctx, sample=None):
    """-> number of cells compared; appends to ctx.drift"""
    import fickling.fickle as fk
    from fickling.cli import main
    cells = tv.generate(ctx, "CliArgs", open(os.path.join(tlc.SPEC, "CliArgs.cfg")).read(), "CASE", workers=4, name="design+gen:CliArgs")
    if sample and len(cells) > sample:
        ctx.rng.shuffle(cells)
        cells = cells[:sample]
    recs = [run_cell(ctx, c, n, fk, main) for n, c in enumerate(cells)]
    verdicts = tv.validate(ctx, "CliArgsTrace", recs, batch=20000)
    bad = {}
    for r in recs:
        v = verdicts[r["id"]]["v"]
        if v != "ok":
            bad.setdefault(v, []).append(r)
    for v, rs in sorted(bad.items())[:6]:
        r = rs[0]
        ctx.drift.append(f"command-line table: {v} [{len(rs)} cell(s), e.g. flags={','.join(r['f']) or '-'} input={r['i']} chan={r['ch']} target={r['k']}]")
    ctx.notes.append(f"command-line decision table (spec/CliArgsRel.tla): {len(recs)} cells run through the real main(), {sum(map(len, bad.values()))} disagree")
    return len(recs)
