"""Replay the cells of spec/Wrapper.tla into the real PyTorchModelWrapper.validate_file_format (imports torch).
usage: python -m harness.wrapperchild <cells.json> <out.json>"""
import json
import sys
import warnings


def main():
    cells = json.load(open(sys.argv[1]))
    import fickling.polyglot as pg
    from fickling.pytorch import PyTorchModelWrapper
    real = pg.identify_pytorch_file_format
    out = []
    try:
        for n, c in enumerate(cells):
            pg.identify_pytorch_file_format = lambda *a, _fs=c["fs"], **k: list(_fs)      # the list identification would return
            w = PyTorchModelWrapper("/nonexistent/never-opened.pt", force=c["force"])
            with warnings.catch_warnings(record=True) as caught:
                warnings.simplefilter("always")
                try:
                    ret = w.validate_file_format()
                    exc = "none"
                except Exception as e:  # noqa: BLE001 - the class that escapes is the observation
                    ret, exc = [], type(e).__name__
            out.append({"id": n, "fs": c["fs"], "force": c["force"], "exc": exc, "warnings": len(caught), "returned": list(ret)})
    finally:
        pg.identify_pytorch_file_format = real
    json.dump(out, open(sys.argv[2], "w"))


if __name__ == "__main__":
    main()
