"""Read-only queries on a Pickled object, each returning a short digest (C13, C14)."""
import ast
import contextlib
import hashlib
import io
import json

from .rec_vm import digest_ast


def _d(x):
    return hashlib.sha1(json.dumps(x, sort_keys=True, default=str).encode()).hexdigest()[:16]


def _unp(n):
    return ast.unparse(n)


def q_source(p):
    return _d(_unp(p.ast))


def q_ast(p):
    return _d(digest_ast(p.ast))


def q_severity(p):
    from fickling.analysis import check_safety
    return check_safety(p).severity.name


def q_findings(p):
    from fickling.analysis import check_safety
    r = check_safety(p)
    return _d(sorted({(str(f.analysis_name), f.severity.name, str(f.message)) for f in r.results}))


def q_imports(p):
    return _d([_unp(n) for n in p.properties.imports])


def q_calls(p):
    return _d([_unp(n) for n in p.properties.calls])


def q_flags(p):
    return f"{p.has_import}/{p.has_call}/{p.has_non_setstate_call}"


def q_unused(p):
    from fickling.fickle import Interpreter
    return _d(sorted(Interpreter(p).unused_variables()))


def q_nonstd(p):
    return _d([_unp(n) for n in p.non_standard_imports()])


def q_unsafe(p):
    return _d([_unp(n) for n in p.unsafe_imports()])


def q_trace(p):
    from fickling.fickle import Interpreter
    from fickling.tracing import Trace
    buf = io.StringIO()
    with contextlib.redirect_stdout(buf):
        t = Trace(Interpreter(p)).run()
    return _d([buf.getvalue(), _unp(t)])


def q_source_cli(p):
    """decompile the way the command line does for the k-th pickle of a stack (own numbering of variables and result)"""
    from fickling.fickle import Interpreter
    return _d(_unp(Interpreter(p, first_variable_id=3, result_variable="result1").to_ast()))


def q_trace_cli(p):
    from fickling.fickle import Interpreter
    from fickling.tracing import Trace
    buf = io.StringIO()
    with contextlib.redirect_stdout(buf):
        t = Trace(Interpreter(p, first_variable_id=5, result_variable="result2")).run()
    return _d([buf.getvalue(), _unp(t)])


def q_findings_each(p):
    """the safety check with a caller-supplied analyzer: every registered analysis on its own"""
    from fickling.analysis import Analysis, Analyzer, check_safety
    out = []
    for cls in list(dict.fromkeys(type(a) for a in Analysis.ALL)):
        r = check_safety(p, analyzer=Analyzer([cls()]))
        out.append([cls.__name__, r.severity.name, sorted({(str(f.analysis_name), f.severity.name, str(f.message)) for f in r.results})])
    return _d(out)


def q_severity_ml(p):
    """... and the ML recipe (allow-list analysis first)"""
    import fickling.analysis as an
    import fickling.ml as ml
    recipe = [c() for c in (getattr(ml, "MLAllowlist", None), getattr(an, "UnsafeImportsML", None), getattr(an, "BadCalls", None)) if c]
    r = an.check_safety(p, analyzer=an.Analyzer(recipe))
    return _d([r.severity.name, sorted({(str(f.analysis_name), f.severity.name, str(f.message)) for f in r.results})])


def q_dumps(p):
    return _d(p.dumps().hex())


QUERIES = {"source": q_source, "ast": q_ast, "severity": q_severity, "findings": q_findings,
           "imports": q_imports, "calls": q_calls, "flags": q_flags, "unused": q_unused,
           "nonstd": q_nonstd, "unsafe": q_unsafe, "trace": q_trace, "dumps": q_dumps,
           "source_cli": q_source_cli, "trace_cli": q_trace_cli, "findings_each": q_findings_each, "severity_ml": q_severity_ml}


class _DoesNotReturn(BaseException):
    pass


def _alarm(*_a):
    raise _DoesNotReturn()


def ask(p, q, limit=20):
    """a query that does not come back within `limit` seconds is an answer too ("exc:DoesNotReturn"): the checks stay finite
    on a tree where a view loops (found on the unchanged tree: Interpreter.unused_variables on a self-referential argument)"""
    import signal
    import threading
    guard = threading.current_thread() is threading.main_thread()
    if guard:
        old = signal.signal(signal.SIGALRM, _alarm)
        signal.setitimer(signal.ITIMER_REAL, limit)
    try:
        return QUERIES[q](p)
    except _DoesNotReturn:
        return "exc:DoesNotReturn"
    except RecursionError:
        return "exc:RecursionError"
    except Exception as e:  # noqa: BLE001 - a deterministic failure is an answer too
        return "exc:" + type(e).__name__
    finally:
        if guard:
            signal.setitimer(signal.ITIMER_REAL, 0)
            signal.signal(signal.SIGALRM, old)
